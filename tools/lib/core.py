"""Check context: evidence, findings, verdict printing, harness batch running."""
import fnmatch, hashlib, json, os, re, shutil, subprocess, sys, time

from . import build as B
from . import tlc as T

VERIF = T.VERIF
CACHE = T.CACHE


class Infra(Exception):
    """Infrastructure error -> exit 2, nothing claimed."""


# Evidence and replays describe /repo.  A self-test run against a mutated copy of the sources (VERIF_REPO set by
# tools/mutant.py or tools/seedrun.py) writes them under .cache/mutant-out instead, so that it cannot overwrite
# what the last run on the real tree recorded.
OUT = VERIF if os.path.realpath(os.environ.get("VERIF_REPO", "/repo")) == "/repo" else os.path.join(VERIF, ".cache", "mutant-out")

COVERAGE_OK = {"Holders", "MCGuards", "MCHash", "MCSeq", "Lifetime", "Strings", "Bitset", "OwnerScripts", "MCHeap", "MCRadix", "MCQsInd", "SortInputs"}


class Ctx:
    def __init__(self, pid, tier, seed, replay=None):
        self.pid = pid
        self.tier = tier
        self.seed = seed
        self.replay = replay
        self.t0 = time.time()
        self.violations = []     # dicts {key, what, replay}
        self.known_hits = []
        self.notes = []
        self.cov = {"states": 0, "transitions": 0, "traces_validated_against_impl": 0,
                    "evaluations": 0, "samples": [], "models": [], "stages": []}
        self.assumptions = []
        self.level = "model_checking"
        self._distinct = set()
        self.findings = load_findings()
        self.work = os.path.join(CACHE, "work", "%s-%s-%d" % (pid, tier, os.getpid()))
        shutil.rmtree(self.work, ignore_errors=True)
        os.makedirs(self.work, exist_ok=True)
        # scratch of runs that were killed (TLC metadirs can be tens of GB, shard copies, work dirs): drop when older than 8 h
        import glob
        for stale in glob.glob(os.path.join(CACHE, "tlc", "md-*")) + glob.glob(os.path.join(CACHE, "shards-*")) + glob.glob(os.path.join(CACHE, "work", "*")):
            try:
                if stale != self.work and time.time() - os.path.getmtime(stale) > 8 * 3600:
                    shutil.rmtree(stale, ignore_errors=True)
            except OSError:
                pass
        os.makedirs(os.path.join(OUT, "replays"), exist_ok=True)

    @property
    def quick(self):
        return self.tier == "quick"

    def log(self, *a):
        print("[%s %6.1fs]" % (self.pid, time.time() - self.t0), *a, flush=True)

    # ---- model checking -------------------------------------------------------------------
    def model(self, spec_dir, module, cfg, must_hold=True, expect_violation=None, **kw):
        """Run an exhaustive TLC config. must_hold: a violation is a *design* problem of the spec
        (infrastructure: the spec is my artefact, frigg is not accused by it).
        expect_violation: negative control - TLC must report this invariant/property violated."""
        sd = os.path.join(VERIF, "spec", spec_dir)
        # thorough tier: per-action counts go into the evidence (vacuity guard) - for the models where -coverage is cheap;
        # on the large implementation-shaped graphs (RBTreeImpl with one emitted history per transition, QsImpl, SlabPool)
        # it multiplies TLC's memory and ran the interval-tree model out of 16 GB
        if not self.quick and expect_violation is None and module in COVERAGE_OK:
            kw.setdefault("coverage", True)
        r = T.run(sd, module, cfg, **kw)
        rec = {"module": module, "cfg": cfg, **r.summary()}
        if r.coverage:
            rec["actions_never_taken"] = sorted(a for a, (t, g) in r.coverage.items() if t == 0 and g == 0)
        self.cov["models"].append(rec)
        if expect_violation is not None:
            if r.violation is None:
                raise Infra("negative control %s/%s did not produce the expected violation of %s (vacuous model)"
                            % (module, cfg, expect_violation))
            if expect_violation not in r.violation and expect_violation != "*":
                raise Infra("negative control %s/%s violated something else: %s" % (module, cfg, r.violation))
            rec["negative_control"] = "fired as required: " + r.violation
            self.log("model %s/%s negative control fired (%d states)" % (module, cfg, r.distinct))
            return r
        self.cov["states"] += r.distinct
        self.cov["transitions"] += r.generated
        self.log("model %s/%s: %d distinct / %d generated, depth %d, %.1fs%s" %
                 (module, cfg, r.distinct, r.generated, r.depth, r.wall,
                  "" if r.violation is None else "  !! " + r.violation))
        if must_hold and r.violation is not None:
            raise Infra("model %s/%s: %s\n%s" % (module, cfg, r.violation, r.out[-4000:]))
        return r

    # ---- distinctness bookkeeping -----------------------------------------------------------
    def count_history(self, h):
        s = json.dumps(h, sort_keys=True)
        if len(h) >= 2:
            self._distinct.add(hashlib.sha1(s.encode()).digest()[:8])

    def sample(self, x, limit=6):
        if len(self.cov["samples"]) < limit:
            self.cov["samples"].append(x)

    # ---- trace validation -------------------------------------------------------------------
    def validate(self, spec_dir, module, cfg, trace_path, label, keyfn=None, nshards=16, **kw):
        """Validate a recorded trace; every rejection owned by this property becomes a violation
        (or a KNOWN-FINDING hit). keyfn(reject, lines) -> finding key."""
        sd = os.path.join(VERIF, "spec", spec_dir)
        v = T.validate_trace(sd, module, cfg, trace_path, nshards=nshards, **kw)
        if v.infra:
            raise Infra(v.infra)
        stage = {"stage": label, "events": v.events, "executions": v.executions, "checked_steps": v.checked,
                 "rejections": len(v.rejects), "wall_s": round(v.wall, 1)}
        self.cov["stages"].append(stage)
        self.cov["traces_validated_against_impl"] += v.executions
        self.cov["evaluations"] += v.executions
        self.log("validated %s: %d executions, %d events, %d checked steps, %d rejections, %.1fs" %
                 (label, v.executions, v.events, v.checked, len(v.rejects), v.wall))
        if v.rejects:
            with open(trace_path) as f:
                lines = f.readlines()
            for rj in v.rejects:
                ln = rj["line"]
                evline = lines[ln - 1].strip() if 0 < ln <= len(lines) else ""
                # find execution bounds
                a = ln
                while a > 1 and not lines[a - 1].startswith('{"e":"Reset"'):
                    a -= 1
                b = ln
                while b < len(lines) and not lines[b].startswith('{"e":"Reset"'):
                    b += 1
                rj["event"] = evline[:600]
                rj["exec_lines"] = (a, b)
                key = keyfn(rj, lines) if keyfn else "%s/%s" % (rj["pid"], rj["clause"])
                rj["key"] = key
                if rj["pid"] == "EXTRA":
                    # behaviour the specification covers beyond the listed properties: informative, never a verdict
                    self.notes.append("beyond-the-list behaviour differs from the specification (%s): %s" % (rj["clause"], evline[:160]))
                    self.cov.setdefault("beyond_the_list_mismatches", 0)
                    self.cov["beyond_the_list_mismatches"] += 1
                    continue
                if rj["pid"] != self.pid and rj["pid"] != "*":
                    self.notes.append("rejection owned by %s (clause %s) left to that property's check"
                                      % (rj["pid"], rj["clause"]))
                    continue
                self.report(key, "%s rejected at line %d: clause %s; event %s" %
                            (label, ln, rj["clause"], evline[:300]),
                            artefact_lines=lines[a - 1:b],
                            spec={"dir": spec_dir, "module": module, "cfg": cfg, "env": kw.get("env") or {},
                                  "tla_library": [os.path.relpath(p, VERIF) for p in T.COMMON.split(os.pathsep)]})
        return v

    # ---- verdicts -----------------------------------------------------------------------------
    def report(self, key, what, artefact_lines=None, artefact_text=None, spec=None):
        for f in self.findings:
            if f.get("status") == "known" and f.get("property") == self.pid and fnmatch.fnmatchcase(key, f["key"]):
                if key not in [k["key"] for k in self.known_hits]:
                    self.known_hits.append({"key": key, "what": f.get("what", what), "pattern": f["key"]})
                return
        if any(v["key"] == key for v in self.violations):
            return
        safe = re.sub(r"[^A-Za-z0-9_.-]+", "_", key)[:80]
        path = os.path.join(OUT, "replays", "%s-%s.replay" % (self.pid, safe))
        with open(path, "w") as f:
            f.write(json.dumps({"e": "ReplayHeader", "property": self.pid, "key": key, "what": what,
                                "tier": self.tier, "seed": self.seed, "spec": spec}) + "\n")
            if artefact_lines:
                f.writelines(artefact_lines)
            if artefact_text:
                f.write(artefact_text)
        self.violations.append({"key": key, "what": what, "replay": path})

    def build_or_probe(self, probes, *a, **kw):
        """build.build(*a, **kw); when the harness does not compile against the tree, find out whether a PUBLIC API member
        named by the property no longer instantiates.  probes: [(label, prelude, statement)] - each is compiled alone
        (-fsyntax-only) as `prelude; void probe() { statement; }`.  A failing probe is a violation of the property
        (an operation of its quantifier cannot even be expressed); if every probe compiles, the failure is the harness's
        own business (for example a private member it looks at was renamed) and stays an infrastructure error."""
        try:
            return B.build(*a, **kw)
        except B.BuildError as ex:
            failed = []
            # control first: the prelude alone has to compile, otherwise the probes prove nothing
            for label, prelude, stmt in [("control", probes[0][1], ";")] + list(probes) if probes else []:
                src = os.path.join(self.work, "probe_%s.cpp" % re.sub(r"[^A-Za-z0-9_]+", "_", label))
                with open(src, "w") as f:
                    f.write('#include <new>\n#include <utility>\n' + prelude + "\nvoid probe() {\n" + stmt + "\n}\n")
                r = subprocess.run([kw.get("compiler", "g++"), "-std=" + kw.get("std", "c++20"), "-fsyntax-only", "-w",
                                    "-I", B.INCLUDE, src], stdout=subprocess.PIPE, stderr=subprocess.STDOUT, text=True)
                if r.returncode != 0 and label == "control":
                    raise
                if r.returncode != 0:
                    failed.append(label)
                    self.report("%s/build/%s" % (self.pid, label),
                                "a public operation the property quantifies over does not instantiate: " + label,
                                artefact_text=stmt + "\n" + r.stdout[-3000:])
            if not failed:
                raise
            self.notes.append("harness build failed; API probes that do not compile: %s" % failed)
            return None, False

    def finish(self):
        cov = self.cov
        cov["distinct_nontrivial"] = len(self._distinct)
        cov.setdefault("rule", "")
        ev = {"property_id": self.pid, "tier": self.tier, "seed": self.seed, "level": self.level,
              "coverage": cov, "assumptions": self.assumptions, "wall_s": round(time.time() - self.t0, 1),
              "violations": len(self.violations),
              "known_findings_hit": self.known_hits, "notes": self.notes[:50]}
        os.makedirs(os.path.join(OUT, "evidence"), exist_ok=True)
        with open(os.path.join(OUT, "evidence", self.pid + ".json"), "w") as f:
            json.dump(ev, f, indent=1)
        for k in self.known_hits:
            print("KNOWN-FINDING: property=%s %s [%s]" % (self.pid, k["what"], k["key"]))
        for n in self.notes[:20]:
            print("NOTE:", n)
        for v in self.violations:
            print("VIOLATION property=%s replay=%s" % (self.pid, v["replay"]))
            print("   ", v["what"][:500])
        if not os.environ.get("VERIF_KEEP"):
            shutil.rmtree(self.work, ignore_errors=True)
        return 1 if self.violations else 0


def load_findings():
    p = os.path.join(VERIF, "known_findings.jsonl")
    out = []
    if os.path.exists(p):
        for ln in open(p):
            ln = ln.strip()
            if ln and not ln.startswith("#"):
                out.append(json.loads(ln))
    return out


# -------------------------------------------------------------------------------------------------
# Running a harness over a list of histories, surviving crashes: the harness executes and records,
# nothing more. A sanitizer report or crash ends the process; the driver turns the text into an event
# (which no trace spec has an action for) and restarts after the failed history.

_SAN_RE = re.compile(r"(ERROR: \w+Sanitizer: [^\n]*|runtime error: [^\n]*|WARNING: ThreadSanitizer: [^\n]*)")


def run_histories(binary, mode_args, hist_path, trace_path, n_hist, timeout=1800, env=None, max_restarts=400):
    """Run `binary mode_args --from K` with histories on stdin until all n_hist are done.
    The harness prints {"e":"HistDone","i":K} after finishing history K (0-based)."""
    start = 0
    restarts = 0
    raw = trace_path + ".raw"
    open(trace_path, "w").close()
    crashes = 0
    hangs = 0
    while start < n_hist:
        if os.path.exists(raw):
            os.remove(raw)
        rc = B.run_harness(binary, list(mode_args) + ["--from", str(start)], stdin_path=hist_path,
                           out_path=raw, timeout=timeout, env=env)
        last_done, tail = _append_clean(raw, trace_path, start)
        if rc == 0 and tail is None:
            break
        if rc == -9:
            raise Infra("harness timed out (%s)" % binary)
        # crashed inside history last_done+1
        crashes += 1
        what = tail or ("exit code %d" % rc)
        with open(trace_path, "a") as f:
            f.write(json.dumps({"e": "crash", "rc": rc, "what": what[:400]}, separators=(",", ":")) + "\n")
        start = max(last_done + 2, start + 1)
        restarts += 1
        # a history that burns its whole CPU budget (exit 74, event `hang`) costs a minute: three of them are enough for
        # the trace specification to judge; going on would take hours on a tree where every history hangs
        if rc == 74:
            hangs += 1
            if hangs >= 3:
                break
        if restarts > max_restarts:
            # the recorded crash events are judged by the trace spec; the remaining histories are not executed
            break
    if os.path.exists(raw):
        os.remove(raw)
    return crashes


def _append_clean(raw, trace_path, start):
    """Append the JSON lines of raw to trace_path (dropping HistDone markers); return (last hist done, crash text)."""
    last_done = start - 1
    junk = []
    with open(raw, "r", errors="replace") as f, open(trace_path, "a") as out:
        for ln in f:
            if ln.startswith('{"e":"HistDone"'):
                try:
                    last_done = json.loads(ln)["i"]
                except Exception:
                    pass
                continue
            if ln.startswith("{") and ln.rstrip().endswith("}"):
                out.write(ln)
            elif ln.strip():
                junk.append(ln)
    if junk:
        txt = "".join(junk)
        m = _SAN_RE.search(txt)
        what = m.group(1) if m else txt.strip().splitlines()[0]
        # keep a frame or two for context
        frames = re.findall(r"#\d+ 0x[0-9a-f]+ in ([^\n]+)", txt)
        frames = [fr for fr in frames if "frg" in fr or "/repo/" in fr][:3]
        return last_done, what + (" @ " + " <- ".join(frames) if frames else "")
    return last_done, None


def write_ndjson(path, items):
    with open(path, "w") as f:
        for it in items:
            f.write(json.dumps(it, separators=(",", ":")) + "\n")


def replay(path):
    """check.py <Cxx> --replay <file>: show a recorded violation again.  A replay file holds the header written by
    Ctx.report and, for trace rejections, the recorded execution (from its Reset to the rejected event) of the REAL code.
    That execution is validated once more against the trace specification named in the header: exit 1 with the clause if
    the current specification still rejects it, exit 0 if it accepts it (e.g. after a specification error was corrected).
    Other artefacts (sanitizer text, TLC counterexamples, compiler output of an API probe) are printed as recorded."""
    with open(path) as f:
        first = f.readline()
        rest = f.read()
    try:
        hdr = json.loads(first)
    except Exception:
        print("not a replay file:", path); return 2
    print("recorded: property=%s key=%s tier=%s seed=%s" % (hdr.get("property"), hdr.get("key"), hdr.get("tier"), hdr.get("seed")))
    print("   ", hdr.get("what", "")[:600])
    sp = hdr.get("spec")
    if not sp:
        print(rest[:4000])
        print("VIOLATION property=%s replay=%s" % (hdr.get("property"), path))
        return 1
    tmp = os.path.join(CACHE, "replay-%d.ndjson" % os.getpid())
    with open(tmp, "w") as f:
        f.write(rest)
    old = T.COMMON
    T.COMMON = os.pathsep.join(os.path.join(VERIF, p) for p in sp.get("tla_library", ["spec/common"]))
    try:
        env = dict(sp.get("env") or {})
        v = T.validate_trace(os.path.join(VERIF, "spec", sp["dir"]), sp["module"], sp["cfg"], tmp, nshards=1, env=env)
    finally:
        T.COMMON = old
        os.remove(tmp)
    if v.infra:
        print("INFRASTRUCTURE-ERROR:", v.infra); return 2
    if not v.rejects:
        print("the current specification accepts the recorded execution (%d events)" % v.events)
        return 0
    for rj in v.rejects:
        print("rejected again at line %d of the recorded execution: property %s, clause %s" % (rj["line"], rj["pid"], rj["clause"]))
    print("VIOLATION property=%s replay=%s" % (hdr.get("property"), path))
    return 1

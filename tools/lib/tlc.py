"""Run TLC (model checking, behaviour emission, trace validation) and parse what it prints.

Nothing in here judges a property; it only reports what TLC said.
"""
import json, os, re, shutil, subprocess, tempfile, time, uuid
from concurrent.futures import ThreadPoolExecutor

VERIF = os.path.dirname(os.path.dirname(os.path.dirname(os.path.abspath(__file__))))
CACHE = os.path.join(VERIF, ".cache")
JAR = "/opt/veriftools/tla/tla2tools.jar"
DEPS = "/opt/veriftools/tla/CommunityModules-deps.jar"
COMMON = os.path.join(VERIF, "spec", "common")


class TlcError(Exception):
    """Infrastructure error: TLC could not parse/evaluate the model (exit 2 of the check)."""


class TlcResult:
    def __init__(self):
        self.exit = None
        self.out = ""
        self.generated = 0
        self.distinct = 0
        self.depth = 0
        self.violation = None      # text of the first "Error:" line describing a property violation
        self.violated_name = None
        self.ok = False
        self.printed = []          # values printed with PrintT, as raw strings
        self.coverage = {}         # action name -> (taken, generated)
        self.wall = 0.0
        self.errtrace = []

    def summary(self):
        return {"generated": self.generated, "distinct": self.distinct, "depth": self.depth,
                "ok": self.ok, "violation": self.violation, "wall_s": round(self.wall, 2)}


def _java(xmx, light=False):
    # light: single-worker trace-validation shards, many JVMs side by side - serial GC and C1 only
    # (measured: 200k events on 16 shards 11.4 s with the defaults, 2.2 s with these flags)
    gc = ["-XX:+UseSerialGC", "-XX:TieredStopAtLevel=1"] if light else ["-XX:+UseParallelGC"]
    return ["java"] + gc + ["-Xmx" + xmx, "-Xss16m",
            "-DTLA-Library=" + COMMON,
            "-cp", JAR + ":" + DEPS]


def run(spec_dir, module, cfg, workers=8, xmx="8g", timeout=3000, env=None, coverage=False,
        simulate=None, depth=None, seed=None, extra=None, deadlock_off=False, dfid=None,
        keep_out=True):
    """Run TLC on spec_dir/module.tla with spec_dir/cfg. Returns TlcResult."""
    os.makedirs(os.path.join(CACHE, "tlc"), exist_ok=True)
    meta = os.path.join(CACHE, "tlc", "md-" + uuid.uuid4().hex)
    cmd = _java(xmx, light=(workers == 1)) + ["tlc2.TLC", "-workers", str(workers), "-metadir", meta,
                        "-config", cfg, "-noGenerateSpecTE"]
    if coverage:
        cmd += ["-coverage", "1"]
    if deadlock_off:
        cmd += ["-deadlock"]
    if simulate is not None:
        cmd += ["-simulate", "num=%d" % simulate]
        if depth:
            cmd += ["-depth", str(depth)]
    if dfid is not None:
        cmd += ["-dfid", str(dfid)]
    if seed is not None:
        cmd += ["-seed", str(seed)]
    if extra:
        cmd += extra
    cmd += [module + ".tla"]
    e = dict(os.environ)
    if env:
        e.update(env)
    e.pop("JAVA_TOOL_OPTIONS", None)
    t0 = time.time()
    r = TlcResult()
    try:
        p = subprocess.run(cmd, cwd=spec_dir, env=e, stdout=subprocess.PIPE, stderr=subprocess.STDOUT,
                           timeout=timeout, text=True, errors="replace")
        r.exit = p.returncode
        r.out = p.stdout
    except subprocess.TimeoutExpired as ex:
        r.exit = -9
        r.out = (ex.stdout or b"").decode("utf-8", "replace") if isinstance(ex.stdout, bytes) else (ex.stdout or "")
        r.out += "\n*** TLC TIMEOUT after %ss\n" % timeout
    finally:
        shutil.rmtree(meta, ignore_errors=True)
    r.wall = time.time() - t0
    _parse(r)
    return r


_RE_STATES = re.compile(r"(\d+) states generated, (\d+) distinct states found")
_RE_DEPTH = re.compile(r"The depth of the complete state graph search is (\d+)")
_RE_COV = re.compile(r"^<(\w+) line \d+, col \d+ to line \d+, col \d+ of module (\w+)>: (\d+):(\d+)")


def _parse(r):
    gen = dist = 0
    # TLC's pretty printer wraps long tuples over several lines: join them back before parsing
    joined, acc = [], None
    for raw in r.out.splitlines():
        if acc is not None:
            acc += " " + raw.strip()
            if raw.rstrip().endswith(">>"):
                joined.append(acc); acc = None
            continue
        if raw.startswith("<<") and not raw.rstrip().endswith(">>"):
            acc = raw.rstrip()
            continue
        joined.append(raw)
    if acc is not None:
        joined.append(acc)
    for line in joined:
        m = _RE_STATES.search(line)
        if m:
            gen, dist = int(m.group(1)), int(m.group(2))
        m = _RE_DEPTH.search(line)
        if m:
            r.depth = int(m.group(1))
        m = _RE_COV.match(line)
        if m:
            name = m.group(1)
            t, g = int(m.group(3)), int(m.group(4))
            o = r.coverage.get(name, (0, 0))
            r.coverage[name] = (o[0] + t, o[1] + g)
        if line.startswith("<<") or line.startswith("\""):
            r.printed.append(line)
        if line.startswith("Error:") and r.violation is None:
            r.violation = line
            m2 = re.search(r"Invariant (\S+) is violated", line)
            if m2:
                r.violated_name = m2.group(1)
            m2 = re.search(r"Action property (\S+) is violated", line)
            if m2:
                r.violated_name = m2.group(1)
    r.generated, r.distinct = gen, dist
    r.ok = ("Model checking completed. No error has been found." in r.out) or \
           (r.exit == 0 and "Error:" not in r.out)
    # exit codes: 0 ok, 10 assumption, 11 deadlock, 12 safety, 13 liveness; >=150 parse/eval errors
    if r.exit not in (0, 10, 11, 12, 13):
        if r.exit == -9:
            raise TlcError("TLC timed out:\n" + r.out[-3000:])
        errs = []
        ls = r.out.splitlines()
        for i, ln in enumerate(ls):
            if ln.startswith("Error:") or "Attempted" in ln or "exception was" in ln:
                errs.append(" | ".join(x[:200] for x in ls[i:i + 4]))
        raise TlcError("TLC failed (exit %s):\n%s\n...\n%s" % (r.exit, "\n".join(errs[:6]), r.out[-600:]))
    if r.exit in (10,):
        raise TlcError("TLC assumption failed:\n" + r.out[-1800:])


def printed_tuples(r, tag, budget=None):
    """Yield the JSON payloads of lines printed as <<"tag", "json-string">> (evenly sampled down to
    about `budget` of them when given - sampling happens before the JSON is parsed)."""
    pre = '<<"%s", "' % tag
    lines = [ln for ln in r.printed if ln.startswith(pre) and ln.endswith('">>')]
    r.emitted = len(lines)
    if budget and len(lines) > budget:
        lines = lines[::max(1, len(lines) // budget)]
    for line in lines:
        if True:
            inner = line[len(pre) - 1:-2]
            try:
                s = json.loads(inner)
                yield json.loads(s)
            except Exception:
                continue


def printed_raw(r, tag):
    """Yield raw text after the tag for lines printed as <<"tag", ...>>."""
    rx = re.compile(r'^<<\s*"%s",\s*(.*?)\s*>>$' % re.escape(tag))
    for line in r.printed:
        m = rx.match(line)
        if m:
            yield m.group(1)


# ---------------------------------------------------------------------------------------------
# Trace validation

class TraceVerdict:
    def __init__(self):
        self.events = 0
        self.executions = 0
        self.rejects = []    # dicts: {line, pid, clause, exec, shard, event}
        self.infra = None
        self.wall = 0.0
        self.shards = 0
        self.checked = 0     # property-layer predicate evaluations reported by the trace spec


def split_trace(path, nshards, outdir):
    """Split an ndjson trace at Reset lines into nshards files. Returns list of (file, first_line_no)."""
    with open(path) as f:
        lines = f.readlines()
    # group into executions
    execs = []
    cur = []
    start = 1
    for i, ln in enumerate(lines, 1):
        if ln.startswith('{"e":"Reset"') and cur:
            execs.append((start, cur))
            cur = []
            start = i
        cur.append(ln)
    if cur:
        execs.append((start, cur))
    total = len(lines)
    nshards = max(1, min(nshards, len(execs)))
    target = total / nshards
    shards = []
    acc = []
    acc_n = 0
    first = None
    for (st, ex) in execs:
        if first is None:
            first = st
        acc.append((st, ex))
        acc_n += len(ex)
        if acc_n >= target and len(shards) < nshards - 1:
            shards.append(acc)
            acc = []
            acc_n = 0
            first = None
    if acc:
        shards.append(acc)
    out = []
    for k, sh in enumerate(shards):
        fn = os.path.join(outdir, "shard%02d.ndjson" % k)
        linemap = []
        with open(fn, "w") as f:
            for (st, ex) in sh:
                for j, ln in enumerate(ex):
                    f.write(ln)
                    linemap.append(st + j)
        out.append((fn, linemap))
    return out, len(execs), total


def validate_trace(spec_dir, module, cfg, trace_path, nshards=16, xmx="3g", timeout=3000, env=None):
    """Validate an ndjson trace against a trace specification.

    Contract with the trace spec (spec/common/TraceBase.tla):
      - reads the file named by env TRACE
      - prints <<"REJECT", line, "pid", "clause">> for each rejected execution and skips to the next Reset
      - prints <<"DONE", lastline, nchecked>> when the cursor has passed the last line
    """
    v = TraceVerdict()
    t0 = time.time()
    tmp = os.path.join(CACHE, "shards-" + uuid.uuid4().hex)
    os.makedirs(tmp, exist_ok=True)
    try:
        shards, nexec, total = split_trace(trace_path, nshards, tmp)
        v.executions = nexec
        v.events = total
        v.shards = len(shards)

        def one(sh):
            fn, linemap = sh
            e = {"TRACE": fn}
            if env:
                e.update(env)
            r = run(spec_dir, module, cfg, workers=1, xmx=xmx, timeout=timeout, env=e)
            return (fn, linemap, r)

        if not shards:          # nothing was recorded (e.g. the model stage already failed and produced no behaviours)
            v.wall = time.time() - t0
            return v
        with ThreadPoolExecutor(max_workers=min(16, len(shards))) as ex:
            results = list(ex.map(one, shards))
        for fn, linemap, r in results:
            done = False
            for raw in printed_raw(r, "DONE"):
                parts = [x.strip() for x in raw.split(",")]
                if int(parts[0]) == len(linemap):
                    done = True
                if len(parts) > 1:
                    v.checked += int(parts[1])
            nraw = r.out.count('"REJECT"')
            nparsed = 0
            for raw in printed_raw(r, "REJECT"):
                nparsed += 1
                m = re.match(r'(\d+),\s*"([^"]*)",\s*"([^"]*)"', raw)
                if not m:
                    continue
                ln = int(m.group(1))
                v.rejects.append({"line": linemap[ln - 1] if 0 < ln <= len(linemap) else ln,
                                  "pid": m.group(2), "clause": m.group(3)})
            if nraw != nparsed:
                v.infra = "could not parse every REJECT line of %s (%d printed, %d parsed)" % (fn, nraw, nparsed)
            if r.violation is not None or not r.ok:
                v.infra = "trace spec run ended abnormally on %s: %s\n%s" % (fn, r.violation, r.out[-3000:])
            elif not done:
                v.infra = "trace spec did not reach the end of %s\n%s" % (fn, r.out[-3000:])
    finally:
        shutil.rmtree(tmp, ignore_errors=True)
    v.wall = time.time() - t0
    return v


def sany(spec_dir, module):
    cmd = ["java", "-DTLA-Library=" + COMMON, "-cp", JAR + ":" + DEPS, "tla2sany.SANY", module + ".tla"]
    p = subprocess.run(cmd, cwd=spec_dir, stdout=subprocess.PIPE, stderr=subprocess.STDOUT, text=True)
    ok = p.returncode == 0 and "Semantic errors" not in p.stdout and "***Parse Error***" not in p.stdout \
        and "Fatal errors" not in p.stdout
    return ok, p.stdout

"""Content-hashed rebuilds of the C++ harnesses from /repo's current working tree."""
import hashlib, os, subprocess, glob

VERIF = os.path.dirname(os.path.dirname(os.path.dirname(os.path.abspath(__file__))))
CACHE = os.path.join(VERIF, ".cache")
REPO = os.environ.get("VERIF_REPO", "/repo")
INCLUDE = os.path.join(REPO, "include")


class BuildError(Exception):
    pass


def _tree_hash(paths):
    h = hashlib.sha256()
    for p in sorted(paths):
        h.update(p.encode())
        with open(p, "rb") as f:
            h.update(f.read())
    return h


def repo_hash():
    files = glob.glob(os.path.join(INCLUDE, "**", "*"), recursive=True)
    files = [f for f in files if os.path.isfile(f)]
    return _tree_hash(files).hexdigest()[:16]


def build(name, sources, flags=None, compiler="clang++-14", sanitize="address,undefined", std="c++20",
          defines=None, opt="-O1", libs=None, extra_deps=None):
    """Compile harness sources (paths relative to /verif/harness) into .cache/bin/<name>-<hash>."""
    flags = list(flags or [])
    defines = list(defines or [])
    hdir = os.path.join(VERIF, "harness")
    srcs = [os.path.join(hdir, s) for s in sources]
    deps = [f for f in glob.glob(os.path.join(INCLUDE, "**", "*"), recursive=True) if os.path.isfile(f)]
    deps += glob.glob(os.path.join(hdir, "common", "*"))
    deps += srcs
    deps += [os.path.join(hdir, d) for d in (extra_deps or [])]
    h = _tree_hash(set(deps))
    cmd = [compiler, "-std=" + std, opt, "-g", "-fno-omit-frame-pointer", "-I", INCLUDE, "-I", hdir,
           "-Wno-everything" if compiler.startswith("clang") else "-w"]
    if sanitize:
        cmd += ["-fsanitize=" + sanitize, "-fno-sanitize-recover=undefined"]
    cmd += ["-D" + d for d in defines] + flags
    h.update(" ".join(cmd).encode())
    digest = h.hexdigest()[:16]
    bdir = os.path.join(CACHE, "bin")
    os.makedirs(bdir, exist_ok=True)
    out = os.path.join(bdir, "%s-%s" % (name, digest))
    if os.path.exists(out):
        return out, True
    # drop stale binaries of the same harness (older than a day: other runs may be using recent ones)
    import time
    for old in glob.glob(os.path.join(bdir, name + "-*")):
        try:
            if time.time() - os.path.getmtime(old) > 86400:
                os.remove(old)
        except OSError:
            pass
    full = cmd + srcs + ["-o", out + ".tmp%d" % os.getpid(), "-pthread"] + list(libs or [])
    p = subprocess.run(full, stdout=subprocess.PIPE, stderr=subprocess.STDOUT, text=True)
    if p.returncode != 0:
        raise BuildError("harness %s does not build against %s:\n%s" % (name, INCLUDE, p.stdout[-6000:]))
    os.rename(out + ".tmp%d" % os.getpid(), out)
    return out, False


def run_harness(binary, args, stdin_path=None, out_path=None, timeout=1800, env=None):
    """Run a harness. The trace (and any sanitizer text) goes to out_path via fd 3->file; returns rc."""
    e = dict(os.environ)
    e["ASAN_OPTIONS"] = "detect_leaks=0:abort_on_error=0:halt_on_error=1:allocator_may_return_null=1:" \
                        "detect_stack_use_after_return=0:allow_user_poisoning=1:print_legend=0:" \
                        "log_path=stderr:exitcode=77"
    e["UBSAN_OPTIONS"] = "print_stacktrace=1:halt_on_error=1:exitcode=78"
    e["TSAN_OPTIONS"] = "halt_on_error=1:exitcode=79:second_deadlock_stack=1"
    if env:
        e.update(env)
    stdin = open(stdin_path, "rb") if stdin_path else subprocess.DEVNULL
    try:
        with open(out_path, "ab") as out:
            try:
                p = subprocess.run([binary] + list(args), stdin=stdin, stdout=out, stderr=out, env=e,
                                   timeout=timeout)
                return p.returncode
            except subprocess.TimeoutExpired:
                return -9
    finally:
        if stdin_path:
            stdin.close()

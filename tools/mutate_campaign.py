#!/usr/bin/env python3
"""Sampled mutation campaign: generic mutation operators (relational / arithmetic / logical / constant / statement
deletion / memory-order weakening) applied to the anchored headers; every sampled mutant is applied to a scratch copy
of /repo/include and the checks that own the header are run against it (first detection stops).  Survivors are
listed for triage: each is either an equivalent mutant, a change outside every listed property, or a gap in a check.

usage: mutate_campaign.py [--per-header N | --plan name=N,...] [--jobs 3] [--seed 1] [--only header.hpp] [--out file]
Results: selftest/campaign-<seed>.json (one record per mutant: header, line, operator, before/after, outcome)."""
import concurrent.futures, json, os, random, re, shutil, subprocess, sys, tempfile, time
HERE = os.path.dirname(os.path.abspath(__file__))
ROOT = os.path.dirname(HERE)

OWNERS = {
    # slab: the five checks run one pipeline and differ in attribution only; C05 runs the superset (TSan witness), and a
    # rejection it leaves to one of its siblings ("rejection owned by C0x") counts as detected by that sibling
    "slab.hpp": ["C05"], "rbtree.hpp": ["C06", "C07"], "interval_tree.hpp": ["C07"],
    "pairing_heap.hpp": ["C08"], "rcu_radixtree.hpp": ["C09", "C10", "C16"], "qs.hpp": ["C11", "C12"],
    "spinlock.hpp": ["C12"], "mutex.hpp": ["C12"], "vector.hpp": ["C13", "C16"], "small_vector.hpp": ["C13", "C16"],
    "dyn_array.hpp": ["C13", "C16"], "stack.hpp": ["C13"], "list.hpp": ["C13", "C16"], "hash_map.hpp": ["C14", "C16"],
    "string.hpp": ["C15", "C20", "C16"], "optional.hpp": ["C17", "C16"], "expected.hpp": ["C17", "C16"],
    "variant.hpp": ["C17", "C16"], "tuple.hpp": ["C17"], "manual_box.hpp": ["C17", "C16"], "bitset.hpp": ["C18"],
    "array.hpp": ["C18"], "algorithm.hpp": ["C18"], "formatting.hpp": ["C19", "C20"], "printf.hpp": ["C19", "C20"],
    "logging.hpp": ["C19"], "cmdline.hpp": ["C20"], "unique.hpp": ["C16"],
}
DEFAULT_PLAN = {"slab.hpp": 18, "rbtree.hpp": 14, "interval_tree.hpp": 6, "pairing_heap.hpp": 10, "rcu_radixtree.hpp": 14,
                "qs.hpp": 12, "spinlock.hpp": 6, "mutex.hpp": 8, "vector.hpp": 8, "small_vector.hpp": 8, "dyn_array.hpp": 5,
                "stack.hpp": 2, "list.hpp": 12, "hash_map.hpp": 10, "string.hpp": 12, "optional.hpp": 8, "expected.hpp": 8,
                "variant.hpp": 8, "tuple.hpp": 3, "manual_box.hpp": 3, "bitset.hpp": 12, "array.hpp": 4, "algorithm.hpp": 2,
                "formatting.hpp": 16, "printf.hpp": 14, "logging.hpp": 6, "cmdline.hpp": 8, "unique.hpp": 6}

OPS = [
    ("rel", r"(?<![<>=!\-])<=(?!=)", "<"), ("rel", r"(?<![<>=!\-+*/&|^])>=(?!=)", ">"),
    ("rel", r"(?<=[\w\)\] ]) < (?=[\w\(])", " <= "), ("rel", r"(?<=[\w\)\] ]) > (?=[\w\(])", " >= "),
    ("eq", r"==", "!="), ("eq", r"!=", "=="),
    ("arith", r"\+ 1\b", "- 1"), ("arith", r"- 1\b", "+ 1"), ("arith", r"(?<=[\w\)\]]) \+ (?=[\w\(])", " - "),
    ("arith", r"(?<=[\w\)\]]) - (?=[\w\(])", " + "), ("arith", r"\+\+", "--"), ("arith", r"(?<![-])--(?!-)", "++"),
    ("logic", r"&&", "||"), ("logic", r"\|\|", "&&"), ("logic", r"\bif\(!", "if("), ("logic", r"\bif\((?!!)", "if(!"),
    ("const", r"\btrue\b", "false"), ("const", r"\bfalse\b", "true"), ("const", r"\bnullptr\b;", "nullptr;"),
    ("mo", r"memory_order_(acquire|release|acq_rel)", "memory_order_relaxed"), ("mo", r"__ATOMIC_(ACQUIRE|RELEASE|ACQ_REL)", "__ATOMIC_RELAXED"),
    ("del", None, None),
]
SKIP = re.compile(r"^\s*(//|/\*|\*|#|template|typename|using |namespace|public:|private:|protected:|static_assert|friend|struct |class |enum )")
DELETABLE = re.compile(r"^\s*[\w\.\->\[\]\(\)\*:&<>,' ]+(=|\+\+|--|\().*;\s*$")


def candidates(path, rng):
    lines = open(path).read().split("\n")
    out = []
    for i, ln in enumerate(lines):
        if SKIP.match(ln) or not ln.strip() or "FRG_ASSERT" in ln and "printf" not in path and "cmdline" not in path and "formatting" not in path:
            continue
        code = ln.split("//")[0]
        for kind, pat, rep in OPS:
            if kind == "del":
                if DELETABLE.match(code) and not re.match(r"^\s*(return|break|continue|auto |const |[A-Za-z_:<>]+ [\*&]?\w+ = |size_t |int |bool |T |uint)", code) \
                        and code.count("(") == code.count(")") and "{" not in code and "}" not in code:
                    out.append((i, "del", code.strip(), "/* deleted */"))
                continue
            for m in re.finditer(pat, code):
                new = code[:m.start()] + rep + code[m.end():]
                if new != code:
                    out.append((i, kind, code.strip(), new.strip(), m.start(), rep, m.end()))
    rng.shuffle(out)
    return lines, out


def apply(lines, cand):
    i = cand[0]
    ln = lines[i]
    code = ln.split("//")[0]
    if cand[1] == "del":
        new = re.sub(r"\S.*$", ";", code, count=1) if True else code
        # keep the statement structure: replace the statement by an empty one
        new = code[:len(code) - len(code.lstrip())] + ";"
    else:
        new = code[:cand[4]] + cand[5] + code[cand[6]:]
    out = list(lines)
    out[i] = new
    return "\n".join(out)


def run_one(job, tier):
    header, lines, cand = job
    d = tempfile.mkdtemp(prefix="frgcamp-", dir="/var/tmp")
    rec = dict(header=header, line=cand[0] + 1, op=cand[1], before=cand[2], after=cand[3] if cand[1] != "del" else "(statement deleted)")
    try:
        shutil.copytree("/repo/include", os.path.join(d, "include"))
        open(os.path.join(d, "include", "frg", header), "w").write(apply(lines, cand))
        # cheap validity filter: the header must still compile on its own
        probe = subprocess.run(["g++", "-std=c++20", "-fsyntax-only", "-w", "-I", os.path.join(d, "include"), "-include", "new", "-x", "c++",
                                os.path.join(d, "include", "frg", header)], stdout=subprocess.PIPE, stderr=subprocess.STDOUT, text=True)
        if probe.returncode != 0:
            rec["outcome"] = "NOCOMPILE"
            return rec
        env = dict(os.environ); env["VERIF_REPO"] = d
        rec["checks"] = {}
        for pid in OWNERS[header]:
            t0 = time.time()
            r = subprocess.run([sys.executable, os.path.join(HERE, "check.py"), pid, "--tier", tier], env=env,
                               stdout=subprocess.PIPE, stderr=subprocess.STDOUT, text=True)
            viol = [l for l in r.stdout.splitlines() if l.startswith("VIOLATION")]
            rec["checks"][pid] = dict(exit=r.returncode, wall_s=round(time.time() - t0),
                                      first=(viol[0].split("replay=")[-1].split("/")[-1] if viol else ""),
                                      infra=[l[:300] for l in r.stdout.splitlines() if "INFRA" in l or "does not build" in l][:2])
            if r.returncode == 1:
                rec["outcome"] = "DETECTED"
                rec["by"] = pid
                return rec
            foreign = re.findall(r"rejection owned by (C\d\d) \(clause (\w+)\)", r.stdout)
            if r.returncode == 0 and foreign:
                rec["outcome"] = "DETECTED"
                rec["by"] = foreign[0][0] + " (sibling clause " + foreign[0][1] + ")"
                return rec
            if r.returncode != 0:
                rec["outcome"] = "NOCOMPILE" if "does not build" in r.stdout else "INFRA"
                return rec
        rec["outcome"] = "SURVIVED"
        return rec
    finally:
        shutil.rmtree(d, ignore_errors=True)


def own_tests(rec_job):
    """For a survivor: do the repository's own tests notice?  (Then it is not a mutant the brief cares about.)"""
    header, lines, cand = rec_job
    d = tempfile.mkdtemp(prefix="frgcamp-", dir="/var/tmp")
    try:
        shutil.copytree("/repo/include", os.path.join(d, "include"))
        open(os.path.join(d, "include", "frg", header), "w").write(apply(lines, cand))
        exe = os.path.join(d, "t")
        r = subprocess.run(["g++", "-std=c++20", "-I", os.path.join(d, "include"), "/repo/tests/tests.cpp", "-o", exe, "-lgtest_main", "-lgtest", "-pthread"],
                           stdout=subprocess.PIPE, stderr=subprocess.STDOUT, text=True)
        if r.returncode != 0:
            return "tests-do-not-compile"
        try:
            r = subprocess.run([exe], stdout=subprocess.PIPE, stderr=subprocess.STDOUT, text=True, timeout=300)
        except subprocess.TimeoutExpired:
            return "tests-hang"
        return "tests-pass" if r.returncode == 0 else "tests-fail"
    finally:
        shutil.rmtree(d, ignore_errors=True)


def rerun_jobs(path, outcomes):
    """Re-create the mutants of an earlier campaign file whose outcome is in `outcomes` (after checks were strengthened)."""
    jobs = []
    for rec in json.load(open(path))["results"]:
        if rec["outcome"] not in outcomes:
            continue
        lines = open(os.path.join("/repo/include/frg", rec["header"])).read().split("\n")
        i = rec["line"] - 1
        code = lines[i].split("//")[0]
        if rec["before"] not in code:
            print("stale:", rec["header"], rec["line"]); continue
        if rec["op"] == "del":
            cand = (i, "del", rec["before"], "/* deleted */")
        else:
            new = code.replace(rec["before"], rec["after"], 1)
            # express as (start, replacement, end) over the whole code part of the line
            cand = (i, rec["op"], rec["before"], rec["after"], 0, new, len(code))
        jobs.append((rec["header"], lines, cand))
    return jobs


def arg(name, default):
    return sys.argv[sys.argv.index(name) + 1] if name in sys.argv else default


def main():
    seed = int(arg("--seed", "1")); jobs = int(arg("--jobs", "3")); tier = arg("--tier", "quick")
    plan = dict(DEFAULT_PLAN)
    if "--per-header" in sys.argv:
        plan = {h: int(arg("--per-header", "5")) for h in OWNERS}
    if "--plan" in sys.argv:
        plan = {kv.split("=")[0]: int(kv.split("=")[1]) for kv in arg("--plan", "").split(",")}
    only = arg("--only", "")
    rng = random.Random(seed)
    work = []
    for header, n in plan.items():
        if only and only != header:
            continue
        lines, cands = candidates(os.path.join("/repo/include/frg", header), rng)
        # spread over operators and lines: at most one mutant per line
        seen, picked = set(), []
        for c in cands:
            if c[0] in seen:
                continue
            seen.add(c[0]); picked.append(c)
            if len(picked) >= n:
                break
        work += [(header, lines, c) for c in picked]
    rng.shuffle(work)
    if "--rerun" in sys.argv:
        work = rerun_jobs(arg("--rerun", ""), set(arg("--outcomes", "SURVIVED,INFRA").split(",")))
    print("%d mutants planned" % len(work), flush=True)
    out_path = arg("--out", os.path.join(ROOT, "selftest", "campaign-%d.json" % seed))
    results = []
    with concurrent.futures.ThreadPoolExecutor(jobs) as ex:
        futs = {ex.submit(run_one, w, tier): w for w in work}
        for f in concurrent.futures.as_completed(futs):
            rec = f.result()
            if rec["outcome"] == "SURVIVED":
                rec["own_tests"] = own_tests(futs[f])
            results.append(rec)
            print("%-9s %-18s:%-4d %-5s %s  ->  %s   %s" % (rec["outcome"], rec["header"], rec["line"], rec["op"], rec["before"][:60], rec["after"][:60],
                                                          rec.get("by", rec.get("own_tests", ""))), flush=True)
            json.dump(dict(seed=seed, tier=tier, results=results), open(out_path, "w"), indent=1)
    from collections import Counter
    print(Counter(r["outcome"] for r in results))


main()

#!/bin/bash
# Confirm a seeded change produced in a scratch worktree: the demo fails with it, passes without it,
# and the repository's own tests pass with it.  usage: seedconfirm.sh <worktree> [extra compiler flags]
# Prints one line per fact; copies nothing.
W=$1; shift
CXX=${CXX:-g++}
cd "$W" || exit 2
test -s patch.diff || { echo "no patch.diff"; exit 2; }
git diff --quiet -- include && { echo "worktree has no change under include/"; exit 2; }
build() { $CXX -std=${STD:-c++20} -pthread -I"$W/include" "$@" demo.cpp -o "$W/demo_confirm" 2>"$W/demo_confirm.err"; }
build "$@" || { echo "demo does not build with the change"; head -5 demo_confirm.err; exit 2; }
timeout 300 ./demo_confirm >demo_with.out 2>&1; with=$?
git apply -R patch.diff || { echo "patch.diff does not match the worktree"; exit 2; }   # (not git stash: its ref is shared by all worktrees)
build "$@"; b=$?
timeout 300 ./demo_confirm >demo_without.out 2>&1; without=$?
git apply patch.diff || exit 2
echo "demo with change: exit $with; without: build $b exit $without"
rm -rf _build_confirm
meson setup _build_confirm >/dev/null 2>&1 && meson test -C _build_confirm 2>&1 | grep -E '^(Ok|Fail|Expected Fail|Unexpected Pass|Timeout):' | tr '\n' ' '
echo
rm -rf _build_confirm demo_confirm demo_confirm.err

#!/usr/bin/env python3
"""Single entry point of the verification machinery.

  check.py <Cxx> --tier quick|thorough      run the check of one property
  check.py <Cxx> --replay <file>            re-run a recorded violation artefact
  check.py --setup                          verify tools, parse every spec, warm the build cache

exit 0: property held on everything explored (KNOWN-FINDING / MODEL-DRIFT lines possible)
exit 1: VIOLATION property=<id> replay=<path>
exit 2: infrastructure error, nothing claimed
"""
import argparse, importlib, os, sys, traceback, glob

sys.path.insert(0, os.path.dirname(os.path.abspath(__file__)))
from lib import core, tlc, build


def setup():
    ok = True
    for tool in ("java", "clang++-14", "g++"):
        from shutil import which
        if not which(tool):
            print("missing tool", tool); ok = False
    specs = sorted(glob.glob(os.path.join(core.VERIF, "spec", "*", "*.tla")))
    # some trace specifications EXTEND an *Ops module of another family (ParseTrace -> StringOps, FmtOps); the drivers
    # put that family on the library path, so the syntax check has to see every family, too
    tlc.COMMON = os.pathsep.join([tlc.COMMON] + sorted(d for d in glob.glob(os.path.join(core.VERIF, "spec", "*")) if os.path.isdir(d)))
    for s in specs:
        d, m = os.path.dirname(s), os.path.basename(s)[:-4]
        good, out = tlc.sany(d, m)
        print("sany %-40s %s" % (os.path.relpath(s, core.VERIF), "ok" if good else "FAILED"))
        if not good:
            print(out[-2000:]); ok = False
    return 0 if ok else 2


def main():
    ap = argparse.ArgumentParser()
    ap.add_argument("pid", nargs="?")
    ap.add_argument("--tier", default=os.environ.get("VERIF_TIER", "quick"), choices=["quick", "thorough"])
    ap.add_argument("--replay")
    ap.add_argument("--setup", action="store_true")
    a = ap.parse_args()
    if a.setup:
        sys.exit(setup())
    if not a.pid:
        ap.error("property id required")
    if a.replay:
        sys.exit(core.replay(a.replay))
    seed = int(os.environ.get("VERIF_SEED", "1") or "1")
    ctx = core.Ctx(a.pid, a.tier, seed, a.replay)
    try:
        mod = importlib.import_module("props." + a.pid.lower())
        mod.run(ctx)
        rc = ctx.finish()
    except (core.Infra, tlc.TlcError, build.BuildError) as ex:
        print("INFRASTRUCTURE-ERROR property=%s: %s" % (a.pid, ex))
        rc = 2
    except Exception:
        traceback.print_exc()
        print("INFRASTRUCTURE-ERROR property=%s: internal error" % a.pid)
        rc = 2
    sys.exit(rc)


if __name__ == "__main__":
    main()

#!/usr/bin/env python3
"""Regenerate MANIFEST.json from the table below (single source of truth for what is claimed)."""
import json, os
V = os.path.dirname(os.path.dirname(os.path.abspath(__file__)))
props = [json.loads(l) for l in open(os.path.join(V, "properties.jsonl"))]

CLAIMED = {
    # pid: (category, text, note, technique, engine, design_ref)
    "C12": ("model_checking",
            "Guards: the complete state graph of the guard state machine (3 guard variables x 2 mutexes, all "
            "operations, each kind) is model-checked for balance and every transition of it is replayed on the real "
            "guards; the recorded mutex calls and observer answers are validated step by step against the trace "
            "specification. Spinlocks: every interleaving of the atomic operations of 2-3 threads is model-checked "
            "(mutual exclusion, happens-before of critical sections with the code's own memory orders, ticket order, "
            "progress) and replayed on the real locks under a cooperative scheduler. spec/Apalache/TicketInd.tla adds an inductive "
            "invariant of the ticket lock discharged by Apalache (mutual exclusion and ticket order for 4 threads with unbounded "
            "counters, negative control)."
            " A ThreadSanitizer witness (harness/conc_tsan.cpp: free-running threads on the real header, plain data ordered only by the component) is an additional observation channel beside the model; it decides nothing on its own.",
            "TLC bounds (3 guards, 2 mutexes, 2-3 threads, 2 rounds); interleaving semantics + release/acquire "
            "happens-before (no load buffering); harness seams (counting mutex, __atomic builtin macros) are faithful",
            "TLA+ spec + TLC exhaustive model checking; spec behaviours replayed into the real code; recorded traces validated against the trace spec by TLC",
            "Locks", "5 C12"),
}

CLAIMED["C11"] = ("model_checking",
    "QsImpl.tla transcribes qs.hpp with one action per atomic access and per mutex operation; TLC checks "
    "'callback/barrier only after a full grace period and after everything the other agents did before their "
    "quiescent state' (happens-before ghost instantiated with the memory orders extracted from the running code), "
    "at-most-once, no assertion reachable, no ack underflow, and under strong fairness that every registered "
    "callback fires and quiescent_barrier returns - for 2 agents at atomic-access granularity and 3 agents at "
    "access/whole-operation granularity. Every transition of the 2-agent graph is replayed on the real "
    "qs_domain under a cooperative scheduler, together with random schedules of 2-6 agents; each recorded "
    "trace is validated against the algorithm-independent property-layer trace spec QsTrace.tla; executions end with a fair "
    "drain (every online agent keeps quiescing, every online owner keeps calling run()): a callback that has not run after "
    "eight complete rounds is a rejection. Rare branches are driven on purpose: TLC refutes 'the CAS on the desired counter never fails short of its target' "
    "(2 agents, 3 nodes) and each counterexample history is replayed on the real code with the fair drain (rare-branch witnesses). spec/Apalache/QsInd.tla gives the whole-call protocol an inductive invariant that "
    "Apalache discharges for an UNBOUNDED period counter (4 agents, 3 nodes, negative control); it is bound to the code by "
    "whole-call conformance: every call of TLC-generated and long random call sequences on the real domain must be the QsInd "
    "action with exactly the logged private state, and every reached state must satisfy the invariant (mismatches are "
    "MODEL-DRIFT, only the ghost-based clause accuses)."
    " A ThreadSanitizer witness (harness/conc_tsan.cpp: free-running threads on the real header, plain data ordered only by the component) is an additional observation channel beside the model; it decides nothing on its own.",
    "bounds: 2-3 agents, 1-2 nodes, <=5 calls per agent, period counter <= 9; interleaving semantics with "
    "release/acquire happens-before (no stale reads); scheduler yields only at seam points (atomic accesses, mutex "
    "calls, callbacks); offline() while a period is deferred is excluded (documented precondition)",
    "TLA+ spec at atomic-access granularity + TLC (safety, liveness, negative controls); TLC schedules replayed into the real code; recorded traces validated by TLC against a property-layer trace spec; memory orders extracted from traces parametrise the model",
    "QS", "5 C11")

CLAIMED["C09"] = ("model_checking",
    "Radix.tla is the abstract map (present keys, insertion generations, set of ever-inserted keys = tree structure). "
    "TLC explores its complete graph for 5-6 keys; every transition is replayed on the real rcu_radixtree under "
    ">=16 embeddings of the key ids into 64-bit keys (each nibble position, including the most significant, is a "
    "first-difference position; same-leaf neighbours; 0 and 2^64-1), plus random histories over clustered random "
    "universes. After every call the trace carries find() of every key of the universe and the full iteration; "
    "RadixTrace.tla accepts a call only if results, all lookups, address stability and ascending exact iteration agree.",
    "bounds: 5-6 key ids, <=2 insertions per key in the exhaustive part; keys beyond the embeddings are sampled; single-threaded (C10 covers readers)",
    "TLA+ abstract map spec + TLC exhaustive graph; every transition replayed into the real tree under key embeddings; traces validated by TLC against the trace spec",
    "Radix", "5 C09")

CLAIMED["C10"] = ("model_checking",
    "RadixConc.tla transcribes find / find_or_insert (all three insertion cases) / erase with one action per atomic "
    "access; TLC explores every interleaving of three writer scripts (case 1 at the root and below an inner node, case 3, "
    "splits at the root - also at depth 0 - and below it, erase, re-insert) with 2-3 readers and checks NoUninitRead "
    "(node fields and values, happens-before ghost instantiated with the memory orders extracted from the running "
    "code), ResultSound, PresentFound and structural sanity. Sampled transitions of those graphs are replayed on the "
    "real tree under a cooperative scheduler and several digit->nibble embeddings, together with random scripts under "
    "random schedules; every trace is validated against the algorithm-independent RadixConcTrace.tla."
    " A ThreadSanitizer witness (harness/conc_tsan.cpp: free-running threads on the real header, plain data ordered only by the component) is an additional observation channel beside the model; it decides nothing on its own.",
    "bounds: 3 scenarios, <=7 writer calls, <=3 readers x <=2 finds; interleaving semantics + release/acquire "
    "happens-before; scheduler yields at atomic accesses and API returns only; a slot that held a value is "
    "re-constructed only after readers of that key have left find (the grace period an RCU user owes)",
    "TLA+ spec at atomic-access granularity + TLC (all interleavings, negative controls); TLC schedules replayed into the real code; traces validated by TLC against a property-layer trace spec with HB ghost; memory orders extracted from traces parametrise the model",
    "Radix", "5 C10")

CLAIMED["C06"] = ("model_checking",
    "RBTreeImpl.tla transcribes insert (both tree variants), remove, fix_insert, fix_remove, the rotations and "
    "replace_node; TLC enumerates every reachable tree shape for 6-8 elements over a key multiset with ties and checks "
    "order (in-order and successor walks), inverse neighbour links, parent/child agreement, valid colouring, the "
    "height bound and reset hooks in every state. One history per transition of that graph is replayed on the real "
    "rbtree / rbtree_order; the structure read back through the tree's accessors must satisfy the same predicates "
    "(TreePredicates.tla) for the abstract order - whatever shape the code built. Random histories up to 300 nodes "
    "are validated after every call.",
    "bounds: <=8 elements exhaustively (6-7 replayed), sampled to 300 nodes; key multisets with ties; shape agreement "
    "with the transcription is not demanded (only the property predicates)",
    "TLA+ transcription + TLC (all reachable shapes); transitions replayed into the real tree; logged structure validated by TLC against the property predicates",
    "RBTree", "5 C06")
CLAIMED["C07"] = ("model_checking",
    "Same graph as C06 over an interval multiset with endpoints 0..3 (points, nested, touching, duplicates): in every "
    "state TLC checks the transcribed for_overlaps for every query 0<=lb<=ub<=4 (exactly once, no other) and the "
    "subtree_max aggregate. Every transition is replayed on the real interval_tree; after the last call all queries "
    "and the one-argument form run on the real tree and the callback sequences and aggregate fields are validated; "
    "random interval sets up to 200 intervals with random queries after every call.",
    "bounds: <=7 intervals over endpoints 0..3 exhaustively; sampled beyond (endpoints to 1000)",
    "TLA+ transcription + TLC (all reachable trees x all queries); transitions replayed; callback sequences validated by TLC",
    "RBTree", "5 C07")

CLAIMED["C08"] = ("model_checking",
    "PairingHeapImpl.tla transcribes _merge, both passes of _collapse, push, pop and remove-through-backlink; TLC "
    "enumerates every reachable heap shape for 7-8 elements over a priority multiset with many ties and checks in every "
    "state: top is a contained maximum, empty() exact, contents reachable exactly once, backlinks consistent, heap "
    "order, removed hooks reset. One history per transition is replayed on the real pairing_heap; top()/empty() after "
    "every call and the full hook structure after the last call are validated against HeapPredicates.tla for the "
    "abstract content set (pop removes exactly what top() returned). Random histories to 400 elements incl. ascending "
    "and descending priorities.",
    "bounds: <=8 elements exhaustively, sampled to 400; shape agreement with the transcription is not demanded",
    "TLA+ transcription + TLC (all reachable shapes); transitions replayed into the real heap; logged structure validated by TLC",
    "Heap", "5 C08")

CLAIMED["C01"] = ("model_checking",
    "SlabTrace.tla accepts an allocate/realloc result only if the block lies inside a region obtained from map() and not returned, is disjoint from every live block and from the region's header, is aligned to the request rounded up to a power of two (>=8, capped at the page size), and reports a stable size >= the request. Checked on every call of random histories over 9 policy configurations (class boundaries, small/large threshold, page rounding, several superblocks) and on the replayed behaviours of the SlabPool model.",
    'bounds: exhaustive part on the tiny geometry (pagesize 64, slab 256, 4 classes), 1-3 threads, <=7 calls per thread, <=2 failing map() calls; other geometries/sizes sampled; cooperative scheduler yields at mutex and policy calls only (races between them are left to the ThreadSanitizer witness of C05)',
    'TLA+ property-layer trace spec over API results + every policy/mutex callback, validated by TLC on traces of the real pool; TLA+ lock-granularity model (SlabPool) model-checked and its behaviours (incl. every fault position) replayed into the real pool',
    "Slab", "5 C01")
CLAIMED["C02"] = ("model_checking",
    'SlabTrace.tla checks realloc semantics (null->allocate, 0->free, in place only if it fits, prefix preserved when moved, source kept when it fails), free(null) as a no-op without callbacks, the byte contents of every live block after every call (harness pattern per block), and the footprint bound: a further slab of a class is mapped only when ceil(peak/perSlab) requires it - on every MapOk of single-threaded histories including long churn; the SlabPool model proves the same bound over its closed graph.',
    'bounds: exhaustive part on the tiny geometry (pagesize 64, slab 256, 4 classes), 1-3 threads, <=7 calls per thread, <=2 failing map() calls; other geometries/sizes sampled; cooperative scheduler yields at mutex and policy calls only (races between them are left to the ThreadSanitizer witness of C05)',
    'TLA+ property-layer trace spec over API results + every policy/mutex callback, validated by TLC on traces of the real pool; TLA+ lock-granularity model (SlabPool) model-checked and its behaviours (incl. every fault position) replayed into the real pool',
    "Slab", "5 C02")
CLAIMED["C03"] = ("model_checking",
    'SlabTrace.tla checks every policy callback: unmap only of a mapped region with exact base and length, never under a live block, a large free returns its whole reservation, only slab memory remains when no large block lives, the used-page counter moves only with regions (up on take, down by the charged amount on return), poison callbacks inside mapped regions, requested bytes unpoisoned, freed small blocks poisoned except the link word (byte-exact on the small geometries). The policy forwards poisoning to ASan, so the pool touching a poisoned or unmapped byte is an event no action matches.',
    'bounds: exhaustive part on the tiny geometry (pagesize 64, slab 256, 4 classes), 1-3 threads, <=7 calls per thread, <=2 failing map() calls; other geometries/sizes sampled; cooperative scheduler yields at mutex and policy calls only (races between them are left to the ThreadSanitizer witness of C05)',
    'TLA+ property-layer trace spec over API results + every policy/mutex callback, validated by TLC on traces of the real pool; TLA+ lock-granularity model (SlabPool) model-checked and its behaviours (incl. every fault position) replayed into the real pool',
    "Slab", "5 C03")
CLAIMED["C04"] = ("model_checking",
    'The SlabPool model lets map() fail nondeterministically (<=2 times) at every position - first slab of a class, additional slab, large frame, the allocate inside a copying realloc; TLC checks that nothing stays locked and the slab accounting is intact, and every such behaviour is replayed on the real pool with the policy failing exactly those calls. SlabTrace.tla demands null iff map failed, the realloc source intact, accounting unchanged, no crash/assertion, and accepts the rest of the history (pool keeps working). Random histories with 15-20% failing maps in addition.',
    'bounds: exhaustive part on the tiny geometry (pagesize 64, slab 256, 4 classes), 1-3 threads, <=7 calls per thread, <=2 failing map() calls; other geometries/sizes sampled; cooperative scheduler yields at mutex and policy calls only (races between them are left to the ThreadSanitizer witness of C05)',
    'TLA+ property-layer trace spec over API results + every policy/mutex callback, validated by TLC on traces of the real pool; TLA+ lock-granularity model (SlabPool) model-checked and its behaviours (incl. every fault position) replayed into the real pool',
    "Slab", "5 C04")
CLAIMED["C05"] = ("model_checking",
    'SlabPool.tla models allocate/free/realloc at the granularity of lock operations and policy calls; TLC explores every interleaving of 2 (3) threads incl. two threads finding a class empty and freeing into a slab another allocates from: no double hand-out (slab accounting), policy called without locks, lock order, no deadlock, and under fairness every call returns. The interleavings are replayed with the cooperative scheduler; SlabTrace.tla checks disjointness across threads, locks balanced, policy calls lock-free, every call returns. A ThreadSanitizer witness (free-running threads, frg::ticket_spinlock) covers races between seam points.',
    'bounds: exhaustive part on the tiny geometry (pagesize 64, slab 256, 4 classes), 1-3 threads, <=7 calls per thread, <=2 failing map() calls; other geometries/sizes sampled; cooperative scheduler yields at mutex and policy calls only (races between them are left to the ThreadSanitizer witness of C05)',
    'TLA+ property-layer trace spec over API results + every policy/mutex callback, validated by TLC on traces of the real pool; TLA+ lock-granularity model (SlabPool) model-checked and its behaviours (incl. every fault position) replayed into the real pool',
    "Slab", "5 C05")

CLAIMED["C13"] = ("model_checking",
    "SeqContainers.tla gives, for vector, small_vector<N>, dyn_array, stack, list and intrusive_list, the effect of "
    "every operation on two abstract sequences (push/emplace/pop/resize/clear/insert/erase/splice/copy/move/assign/"
    "swap between the two variables). TLC explores the closed graph (lengths crossing the inline capacity and the "
    "first growth steps); one history per transition is replayed on the real containers with int and with Tracked "
    "elements under ASan (exact-size allocator blocks, so out-of-bounds accesses are events no action matches); "
    "SeqTrace.tla compares size, empty, front/back, indexing, forward and backward iteration and == with the spec "
    "state. Random histories up to length 5000.",
    "bounds: lengths <=6 (+ second variable <=1) exhaustively, values {0,1,2}; sampled to length 300-5000; small_vector with N in {1,4}; one known finding (resize / rvalue push whose argument is an element of the growing container) is listed in known_findings.jsonl",
    "TLA+ abstract sequence spec + TLC closed graph; transitions replayed into the real containers; observers validated by TLC",
    "Seq", "5 C13")

CLAIMED["C14"] = ("model_checking",
    "HashMap.tla is the abstract key->value association (insert of an absent key, operator[] with default insertion "
    "exactly once and assignment through the reference, get, find, remove returning the stored value). TLC explores "
    "the closed graph over 11 keys (sizes crossing the first rehash threshold with every key as the one added at the "
    "threshold; emptied and refilled maps); transitions are replayed on the real hash_map under 6 hash functions "
    "(identity, constant, mod 3, x16, x20 colliding modulo the first two capacities, multiplicative) with int and "
    "Tracked values; after each call get() and find() of every key, size(), empty() and the iterated entries are "
    "validated. Random histories over 48/200/1000 keys cross the later thresholds.",
    "bounds: 11 keys exhaustively (<=1 default-valued entry at a time), later thresholds sampled; 6 hash functions",
    "TLA+ abstract map spec + TLC closed graph; transitions replayed into the real hash_map under several hash functions; all lookups validated by TLC",
    "Hash", "5 C14")

CLAIMED["C17"] = ("model_checking",
    "HolderOps.tla is the semantics of std::optional / std::expected / std::variant (with a valueless state) / a "
    "storage-plus-flag box, as operations on <<tag, value>> pairs. TLC explores the closed product graph destination "
    "state x source state x operation (construct from value/null/error, copy, move, copy-/move-/converting/null/"
    "value assignment, emplace, initialize/destruct) for each holder; every transition and random operation sequences "
    "are replayed on the frigg type with trivial, Tracked and move-only elements NEXT TO the standard type; "
    "HoldersTrace.tla requires the state and value read through frigg's accessors to equal the specification (and "
    "the specification to equal the standard type, else the check reports a specification error). tuple "
    "get/apply/tuple_cat/converting construction/reference identity are checked as sequence equalities.",
    "bounds: two holder variables, values {1,2}, three alternatives; copy-only elements are not instantiated; tuple shapes fixed",
    "TLA+ semantics spec + TLC closed product graph; transitions replayed into the real types beside the std types; states validated by TLC",
    "Val", "5 C17")

CLAIMED["C16"] = ("model_checking",
    "The lifetime ledger (LedgerOps/Lifetime.tla; model-checked as a generator) is applied by LifetimeTrace.tla to the "
    "event stream of every owning type: an element type that logs each construction (with its source), assignment and "
    "destruction, and an allocator that logs every block. Guards: never constructed over a live object, constructed "
    "inside existing storage, copy/move/assign source inside its lifetime, destroyed exactly once, deallocate with the "
    "allocated size, no live element inside a returned block, nothing alive or allocated when the owner is gone. The "
    "operation sequences are the tours of the C13 (vector, small_vector, dyn_array, stack, list), C14 (hash_map) and "
    "C17 (optional, expected, variant, manual_box) graphs plus TLC-enumerated scripts for unique_ptr, unique_memory, "
    "string, list destroyed non-empty, tuple and the radix tree (erased values are exempt, see DESIGN.md).",
    "bounds as in C13/C14/C17; owner scripts up to 3-6 operations; one known finding (small_vector bytewise relocation of inline elements) is listed in known_findings.jsonl",
    "TLA+ ledger spec; TLC-generated operation sequences replayed into the real owning types with a lifetime-logging element and a block-logging allocator; every event validated by TLC as a ledger action",
    "Life", "5 C16")

CLAIMED["C15"] = ("model_checking",
    "StringOps.tla defines the reference operations on character sequences (construction from C strings / (pointer, "
    "length) / views, copy, assignment, resize, + and += with views and characters, push_back, length-first compare, ==, "
    "find_first / find_first_of / find_last, sub_string, starts_with / ends_with, to_number of digit strings, the hash "
    "recurrence). Strings.tla enumerates every pair of strings over {a, b, NUL} up to length 3-4 and the closed graph "
    "of an owned string under its mutating operations; the real string / view is run on each case with source buffers "
    "in exact-size heap blocks under ASan, and StringsTrace.tla compares every observation (including data()[size()] "
    "== 0 of every owned string) with the reference; a read past a buffer is an event no action matches.",
    "bounds: alphabet {a, b, NUL}, length <=3 (4 thorough) exhaustively; random pairs to length 5; hash only where it stays below 2^31; "
    "to_number only for values that fit; a default-constructed string (data() == nullptr, size() == 0) counts as terminated",
    "TLA+ reference operations + TLC-enumerated input space; real string/view run on every case; observations validated by TLC",
    "Str", "5 C15")

CLAIMED["C18"] = ("model_checking",
    "BitsetOps.tla gives std::bitset's meaning on sets of positions for any N; Bitset.tla's closed graph of two "
    "bitsets for N in {1,2,3} (construction from every bit pattern incl. bits at and beyond N, set/reset/flip, bit "
    "references incl. ~ref and ref = ref, &= |= ^= ~, shifts 0..N+2) is replayed on frg::bitset, and random operation "
    "sequences run for 21 values of N up to 320 with positions and shift amounts at word boundaries and beyond N; "
    "BitsTrace.tla compares the set bits, count/any/all/none/==, the raw tail (no bit at or beyond N) after every "
    "operation; each bitset lives in an exact-size heap block under ASan. array (indexing, front/back, iteration, ==, "
    "array_concat, get<I>) and insertion_sort (every array over {1,2,3} up to length 6, three comparators: "
    "permutation and no earlier element comparing before a later one) are checked against sequences. The PRNG "
    "clause is NOT decided by the specification: it is an auxiliary differential against std::mt19937 and the "
    "published PCG recurrence, reported separately in the evidence.",
    "bounds: N in {1,2,3} exhaustively, 21 values of N to 320 sampled; PRNG clause outside the TLA+ claim (numeric stream, 64-bit arithmetic; see DESIGN.md section 7)",
    "TLA+ reference set semantics + TLC closed graph for small N; transitions and random sequences replayed on frg::bitset for many N; observations validated by TLC",
    "Bits", "5 C18")

CLAIMED["C19"] = ("exploration",
    "PrintfOps.tla transcribes the ISO C 7.21.6.1 layout of one directive (sign selection, # for o/x/X, precision as "
    "minimum digits, precision 0 with value 0, 0 ignored with - or a precision, padding placement, * width/precision "
    "incl. negative arguments, %p in frigg's documented 0x<hex> form) as a function from a directive record to bytes; "
    "Printf.tla enumerates the directive space flags x width x precision x length modifier x conversion x boundary "
    "value (92k combinations quick, ~10^6 thorough; undefined combinations excluded). Each directive is rendered by the "
    "real printf_format + do_printf_*, by glibc and by the specification; PrintfTrace.tla demands byte equality with "
    "the specification (a spec/glibc disagreement is reported as a specification error). FmtOps.tla gives the "
    "{}-grammar of fmt() incl. echo of malformed, out-of-range and unclosed specs; the logger clause checks that the "
    "chunks concatenate to the text and are shorter than the limit for lengths around multiples of four buffer sizes.",
    "exploration of a generated input space, not a state space: positional %n$ arguments are exercised only through the C20 parser inputs; "
    "digit generation is numeric and happens outside TLA+; fmt() with negative values and widths is not generated (documentation silent)",
    "TLA+ transcription of ISO C directive layout + TLC-enumerated directive space; real printf run on every directive next to glibc; bytes validated by TLC",
    "Fmt", "5 C19")

CLAIMED["C20"] = ("exploration",
    "ParserInputs.tla enumerates every byte string up to a bounded length over the reduced alphabet of each of the four "
    "parsers (printf format strings containing %, fmt() strings, kernel command lines with two option tables incl. "
    "duplicates and an empty name, to_number inputs for four integer types) plus grammar-generated inputs with very "
    "long digit runs. ParseTrace.tla is the outcome contract: the call returns, completes or stops through the "
    "assertion hook, fetches no variadic argument beyond those supplied (va_arg is counted; arguments are supplied from "
    "a reference reading of the directive grammar), option targets point into the command line; on defined inputs the "
    "functional result is the reference one (the whole fmt grammar, unquoted command lines, to_number with range "
    "check). Memory safety is NOT decided by the specification: each input lives in an exact-size heap buffer and the "
    "harness is built with ASan+UBSan (signed overflow, shifts, bounds); a sanitizer report, crash or non-returning "
    "call is an event no action matches.",
    "mixed mode (DESIGN.md section 7): the specification contributes the input language, the outcome contract and the functional reference; "
    "the memory-safety half rests on the sanitizer observation channel; lengths <=4-6 exhaustively (5-8 thorough)",
    "TLC-enumerated input language + TLA+ outcome contract validated by TLC on every recorded parser run; ASan/UBSan as observation channel",
    "Parse", "5 C20")

NOT_YET = "check not built yet in this round (see DESIGN.md build order); not claimed until its TLA+ spec and conformance harness exist"

checks, na = [], []
for p in props:
    pid = p["id"]
    if pid in CLAIMED:
        cat, text, note, tech, engine, ref = CLAIMED[pid]
        checks.append({
            "property_id": pid,
            "quick_cmd": "python3 tools/check.py %s --tier quick" % pid,
            "thorough_cmd": "python3 tools/check.py %s --tier thorough" % pid,
            "evidence_file": "evidence/%s.json" % pid,
            "replay_cmd_template": "python3 tools/check.py %s --replay {path}" % pid,
            "engine": engine,
            "level_claimed": {"category": cat, "text": text, "design_ref": ref},
            "level_note": note,
            "technique": tech,
        })
    else:
        na.append({"property_id": pid, "reason": NOT_YET})

engines = {}
for c in checks:
    engines.setdefault(c["engine"], []).append(c["property_id"])

m = {
    "version": 1,
    "setup_cmd": "python3 tools/check.py --setup",
    "hooks": {
        "guard": "FRG_VERIF",
        "enable": "none needed: all observation goes through template parameters (Policy, Mutex, Allocator, element types, sinks) "
                  "and harness-local preprocessor seams (std::atomic shim, __atomic builtin macros); no source change in /repo",
        "baseline_off_cmd": "meson test -C /repo/_build",
        "source_commits": [],
        "add_only": True,
    },
    "engines": [{"name": e, "path": "spec/" + e, "serves_properties": ps,
                 "kind_free_text": "TLA+ specification family + TLC (model checking, behaviour emission, trace validation) + C++ replay harness"}
                for e, ps in sorted(engines.items())],
    "checks": checks,
    "not_applicable": na,
    "notes": "Model-based verification with explicit TLA+ specifications; see DESIGN.md. Known/fixed defects: known_findings.jsonl.",
}
json.dump(m, open(os.path.join(V, "MANIFEST.json"), "w"), indent=1)
print("claimed:", [c["property_id"] for c in checks], "not claimed:", len(na))

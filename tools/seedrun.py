#!/usr/bin/env python3
"""Run checks against a seeded change kept under /verif/seeded/<name>/patch.diff.
By default the change is applied to a scratch copy of /repo/include (VERIF_REPO), so /repo is never touched
and concurrent runs do not interfere; with --in-repo it is applied with `git -C /repo apply` and undone with
`git -C /repo checkout -- .` afterwards (the way the brief describes).
usage: seedrun.py <name> <Cxx> [<Cxx>...] [--tier quick] [--in-repo]"""
import os, shutil, subprocess, sys, tempfile, time
HERE = os.path.dirname(os.path.abspath(__file__))
ROOT = os.path.dirname(HERE)
args = [a for a in sys.argv[1:] if not a.startswith("--")]
tier = "quick"
if "--tier" in sys.argv:
    tier = sys.argv[sys.argv.index("--tier") + 1]
    args.remove(tier)
name, pids = args[0], args[1:]
patch = os.path.join(ROOT, "seeded", name, "patch.diff")
in_repo = "--in-repo" in sys.argv
env = dict(os.environ)
d = None
try:
    if in_repo:
        subprocess.run(["git", "-C", "/repo", "apply", patch], check=True)
    else:
        d = tempfile.mkdtemp(prefix="frgseed-", dir="/var/tmp")
        shutil.copytree("/repo/include", os.path.join(d, "include"))
        subprocess.run(["patch", "-s", "-p1", "-d", d, "-i", patch], check=True)
        env["VERIF_REPO"] = d
    for pid in pids:
        t0 = time.time()
        r = subprocess.run([sys.executable, os.path.join(HERE, "check.py"), pid, "--tier", tier], env=env,
                           stdout=subprocess.PIPE, stderr=subprocess.STDOUT, text=True)
        keys = ("VIOLATION", "KNOWN", "DRIFT", "INFRA")
        lines = [l for l in r.stdout.splitlines() if any(k in l for k in keys)]
        print(f"== {name} vs {pid} ({tier}): exit {r.returncode} in {time.time() - t0:.0f}s")
        print("\n".join("   " + l[:300] for l in lines[:8]))
finally:
    if in_repo:
        subprocess.run(["git", "-C", "/repo", "checkout", "--", "."])
    if d:
        shutil.rmtree(d, ignore_errors=True)

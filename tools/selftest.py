#!/usr/bin/env python3
"""Binding self-test: every mutant of selftest/mutants.jsonl is applied to a scratch copy of /repo/include (never to
/repo), the repository's own tests are compiled and run against the copy (a breaking mutant must still pass them), and
the listed checks are run with VERIF_REPO pointing at the copy.

  breaking mutant: at least one listed check must exit 1 with a VIOLATION line for its property
  benign mutant:   every listed check must exit 0 (MODEL-DRIFT lines are allowed)

usage: selftest.py [--jobs 3] [--tier quick] [--only <id-substring>] ; writes selftest/results.json, exit 0 iff all as expected."""
import concurrent.futures, json, os, shutil, subprocess, sys, tempfile, time
HERE = os.path.dirname(os.path.abspath(__file__))
ROOT = os.path.dirname(HERE)

def arg(name, default):
    return sys.argv[sys.argv.index(name) + 1] if name in sys.argv else default

def own_tests(d):
    exe = os.path.join(d, "frigg_tests")
    r = subprocess.run(["g++", "-std=c++20", "-I", os.path.join(d, "include"), "/repo/tests/tests.cpp", "-o", exe,
                        "-lgtest_main", "-lgtest", "-pthread"], stdout=subprocess.PIPE, stderr=subprocess.STDOUT, text=True)
    if r.returncode != 0:
        return "tests do not compile: " + r.stdout[-300:]
    r = subprocess.run([exe], stdout=subprocess.PIPE, stderr=subprocess.STDOUT, text=True, timeout=600)
    return "pass" if r.returncode == 0 else "tests fail: " + r.stdout[-300:]

def run_one(mu, tier):
    d = tempfile.mkdtemp(prefix="frgmut-", dir="/var/tmp")
    res = dict(id=mu["id"], kind=mu["kind"], checks={}, note=mu["note"])
    try:
        shutil.copytree("/repo/include", os.path.join(d, "include"))
        p = os.path.join(d, "include", "frg", mu["header"])
        s = open(p).read()
        for old, new in mu["pairs"]:
            if s.count(old) != 1:
                res["outcome"] = "STALE: pattern occurs %d times: %r" % (s.count(old), old[:60])
                return res
            s = s.replace(old, new)
        open(p, "w").write(s)
        res["own_tests"] = own_tests(d)
        env = dict(os.environ); env["VERIF_REPO"] = d
        for pid in mu["checks"]:
            t0 = time.time()
            r = subprocess.run([sys.executable, os.path.join(HERE, "check.py"), pid, "--tier", tier], env=env,
                               stdout=subprocess.PIPE, stderr=subprocess.STDOUT, text=True)
            lines = r.stdout.splitlines()
            viol = [l for l in lines if l.startswith("VIOLATION")]
            res["checks"][pid] = dict(exit=r.returncode, wall_s=round(time.time() - t0),
                                      violations=[l.split("replay=")[-1].split("/")[-1] for l in viol][:6],
                                      own_property=any(("property=" + pid) in l for l in viol),
                                      drift=[l[:160] for l in lines if l.startswith("MODEL-DRIFT")][:2],
                                      infra=[l[:200] for l in lines if "INFRA" in l][:2])
        cs = res["checks"].values()
        if res["own_tests"] != "pass":
            res["outcome"] = "INVALID-MUTANT (" + res["own_tests"][:80] + ")"
        elif any(c["exit"] not in (0, 1) for c in cs):
            res["outcome"] = "INFRA"
        elif mu["kind"] == "breaking":
            res["outcome"] = "DETECTED" if any(c["exit"] == 1 and c["own_property"] for c in cs) else "MISSED"
        else:
            res["outcome"] = "QUIET" if all(c["exit"] == 0 for c in cs) else "FALSE-ALARM"
        return res
    finally:
        shutil.rmtree(d, ignore_errors=True)

def main():
    tier = arg("--tier", "quick"); jobs = int(arg("--jobs", "3")); only = arg("--only", "")
    mus = [json.loads(l) for l in open(os.path.join(ROOT, "selftest", "mutants.jsonl"))]
    mus = [m for m in mus if only in m["id"]]
    out = []
    with concurrent.futures.ThreadPoolExecutor(jobs) as ex:
        for res in ex.map(lambda m: run_one(m, tier), mus):
            out.append(res)
            print("%-14s %-44s %s" % (res["outcome"].split(" ")[0], res["id"],
                  " ".join("%s:%d%s" % (k, v["exit"], "(drift)" if v["drift"] else "") for k, v in res["checks"].items())), flush=True)
    # results.json always describes the current mutants.jsonl: a partial run (--only) replaces its entries only
    path = os.path.join(ROOT, "selftest", "results.json")
    allids = [json.loads(l)["id"] for l in open(os.path.join(ROOT, "selftest", "mutants.jsonl"))]
    prev = {}
    if only and os.path.exists(path):
        prev = {r["id"]: r for r in json.load(open(path))["results"]}
    prev.update({r["id"]: r for r in out})
    json.dump(dict(tier=tier, results=[prev[i] for i in allids if i in prev]), open(path, "w"), indent=1)
    bad = [r for r in out if r["outcome"] not in ("DETECTED", "QUIET")]
    print("%d mutants, %d as expected" % (len(out), len(out) - len(bad)))
    sys.exit(1 if bad else 0)

main()

#!/usr/bin/env python3
"""Self-test helper: run a check against a mutated copy of /repo/include (never touches /repo).
usage: mutant.py <Cxx> <header> <old-text> <new-text> [--tier quick]"""
import os, shutil, subprocess, sys, tempfile
pid, hdr, old, new = sys.argv[1:5]
tier = sys.argv[6] if len(sys.argv) > 6 else "quick"
d = tempfile.mkdtemp(prefix="frgmut-", dir="/var/tmp")
try:
    shutil.copytree("/repo/include", os.path.join(d, "include"))
    p = os.path.join(d, "include", "frg", hdr)
    s = open(p).read()
    if s.count(old) < 1:
        print("pattern not found"); sys.exit(3)
    open(p, "w").write(s.replace(old, new, 1))
    e = dict(os.environ); e["VERIF_REPO"] = d
    r = subprocess.run([sys.executable, os.path.join(os.path.dirname(__file__), "check.py"), pid, "--tier", tier], env=e,
                       stdout=subprocess.PIPE, stderr=subprocess.STDOUT, text=True)
    lines = [l for l in r.stdout.splitlines() if any(k in l for k in ("VIOLATION", "KNOWN", "DRIFT", "INFRA", "rejected", "TLC:"))]
    print("\n".join(lines[:12])); print("exit", r.returncode)
finally:
    shutil.rmtree(d, ignore_errors=True)

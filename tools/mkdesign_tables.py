#!/usr/bin/env python3
"""Regenerates the two generated tables of DESIGN.md (between the BEGIN/END markers) from seeded/*/meta.json and
selftest/results.json, so that the document cannot drift from what was actually run."""
import glob, json, os, re
ROOT = os.path.dirname(os.path.dirname(os.path.abspath(__file__)))

def seeded():
    rows = ["| seeded change (`seeded/<name>`) | needs | detected by | correctly silent / note |", "|---|---|---|---|"]
    for d in sorted(glob.glob(os.path.join(ROOT, "seeded", "*"))):
        m = json.load(open(os.path.join(d, "meta.json")))
        det = "; ".join("%s: %s" % (k, v.replace("VIOLATION ", "")) for k, v in m.get("detected_by", {}).items())
        sil = "; ".join("%s (%s)" % (k, v) for k, v in m.get("not_detected_by", {}).items())
        if m.get("missed_before"):
            sil = (sil + " " if sil else "") + "**missed at first**: " + m["missed_before"]
        rows.append("| %s — %s | %s | %s | %s |" % (os.path.basename(d), m["what"], m["needs"], det, sil or "—"))
    return "\n".join(rows)

def selftest():
    r = json.load(open(os.path.join(ROOT, "selftest", "results.json")))
    rows = ["| mutant | kind | what | checks run (exit) | outcome |", "|---|---|---|---|---|"]
    for x in r["results"]:
        ch = ", ".join("%s (%d%s)" % (k, v["exit"], ", drift" if v["drift"] else "") for k, v in x["checks"].items())
        clause = ""
        for k, v in x["checks"].items():
            if v["violations"]:
                clause = re.sub(r"\.replay$", "", v["violations"][0]); break
        rows.append("| %s | %s | %s | %s | %s%s |" % (x["id"], x["kind"], x["note"], ch, x["outcome"], (" — first clause: `%s`" % clause) if clause else ""))
    n = len(r["results"]); ok = sum(1 for x in r["results"] if x["outcome"] in ("DETECTED", "QUIET"))
    rows.append("")
    rows.append("%d mutants (%d breaking, %d benign), %d as expected; tier %s." % (
        n, sum(1 for x in r["results"] if x["kind"] == "breaking"), sum(1 for x in r["results"] if x["kind"] == "benign"), ok, r["tier"]))
    return "\n".join(rows)

p = os.path.join(ROOT, "DESIGN.md")
s = open(p).read()
for tag, fn in (("seeded table", seeded), ("selftest table", selftest)):
    b, e = "<!-- BEGIN %s -->" % tag, "<!-- END %s -->" % tag
    i, j = s.index(b) + len(b), s.index(e)
    s = s[:i] + "\n" + fn() + "\n" + s[j:]
open(p, "w").write(s)
print("tables regenerated")

"""C11: QS domain - callbacks run once, only after a full grace period, and do run."""
import os, json, re
from lib import core, tlc, build

SPEC = os.path.join(core.VERIF, "spec", "QS")
SITES = [l.strip() for l in open(os.path.join(SPEC, "sites.txt")) if l.strip()]
OPTIONAL = {s for s in SITES if ".casfail." in s}


def key(rj, lines):
    ev = {}
    try:
        ev = json.loads(rj["event"])
    except Exception:
        pass
    extra = ""
    if ev.get("e") == "crash":
        m = re.search(r"in ([\w:<>~ ,*&()]+?)\(?\)? /repo/include/frg/(\w+\.hpp):(\d+)", ev.get("what", ""))
        w = ev.get("what", "")
        kind = "use-after-poison" if "use-after-poison" in w else ("heap-use-after-free" if "use-after-free" in w else "crash")
        fr = re.search(r"frg::qs_agent<[^>]*>::(\w+)", w)
        extra = "/" + kind + ("/" + fr.group(1) if fr else "")
    return "C11/%s%s" % (rj["clause"], extra)


def extract_sites(trace_path):
    """(function, var, kind) -> {line -> set(orders)} from the recorded accesses."""
    seen = {}
    with open(trace_path) as f:
        for ln in f:
            if not ln.startswith('{"e":"A"'):
                continue
            ev = json.loads(ln)
            if "fn" not in ev:
                continue
            seen.setdefault((ev["fn"], ev["var"], ev["k"]), {}).setdefault(ev["line"], set()).add(ev["mo"])
    return seen


def mo_table(seen):
    """Map the model's site names to the orders the code used. Returns (table, drift)."""
    expected = {}
    for s in SITES:
        fn, var, kind, rank = s.rsplit(".", 3)[0], None, None, None
    table, drift = {}, None
    by_key = {}
    for s in SITES:
        parts = s.split(".")
        fn, var, kind, rank = ".".join(parts[:-3]), parts[-3], parts[-2], int(parts[-1])
        by_key.setdefault((fn, var, kind), []).append((rank, s))
    for k, lines in seen.items():
        if k not in by_key:
            drift = drift or "access site %s.%s.%s is not in the model" % k
    for k, ranks in by_key.items():
        lines = seen.get(k, {})
        if len(lines) != len(ranks):
            if all(s in OPTIONAL for _, s in ranks) and not lines:
                for _, s in ranks:
                    table[s] = "sc"     # never executed: strongest order, so it cannot be blamed
                continue
            drift = drift or "site group %s.%s.%s: model has %d sites, trace shows %d" % (k + (len(ranks), len(lines)))
            continue
        for (rank, s), line in zip(sorted(ranks), sorted(lines)):
            orders = lines[line]
            if len(orders) != 1:
                drift = drift or "site %s used with several orders" % s
            table[s] = sorted(orders)[0]
    return table, drift


def write_mo_module(ctx, table, name="QsMOGen"):
    path = os.path.join(ctx.work, name + ".tla")
    body = " @@\n   ".join('("%s" :> "%s")' % (s, table[s]) for s in SITES)
    with open(path, "w") as f:
        f.write("---- MODULE %s ----\nEXTENDS MCQs\nMOgen ==\n   %s\n====\n" % (name, body))
    # liveness wrapper: no history variable
    with open(os.path.join(ctx.work, name + "Live.tla"), "w") as f:
        f.write("---- MODULE %sLive ----\nEXTENDS QsImpl\nMOgen ==\n   %s\n====\n" % (name, body))
    return path


def cfg(ctx, name, agents, nodes, joins, ops, maxc, gran, body, free="FALSE", barrier="TRUE"):
    p = os.path.join(ctx.work, name)
    with open(p, "w") as f:
        f.write("CONSTANTS\n  Agents = {%s}\n  Nodes = {%s}\n  MaxJoins = %d\n  MaxOps = %d\n  FreeQS = %s\n"
                "  MaxCounter = %d\n  Granularity = \"%s\"\n  AllowBarrier = %s\n  MO <- MOgen\n" %
                (",".join(map(str, range(1, agents + 1))), ",".join(map(str, range(1, nodes + 1))), joins, ops, free,
                 maxc, gran, barrier))
        f.write(body)
    return p


SAFETY = ("INIT MCInit\nNEXT MCNext\nVIEW MCView\nCONSTRAINT Bounded\n"
          "INVARIANTS TypeOK AtMostOnce NoPanic NoUnderflow EmptyDomain MutexSane CallbackAfterGracePeriod BarrierAfterGracePeriod\n"
          "CHECK_DEADLOCK FALSE\n")
TOUR = SAFETY + "ACTION_CONSTRAINT Emit\n"
WITNESS = ("INIT MCInit\nNEXT MCNext\nVIEW MCView\nCONSTRAINT Bounded\nINVARIANTS %s\nCHECK_DEADLOCK FALSE\n")
LIVE = ("SPECIFICATION FairSpec\nPROPERTIES EventuallyFired BarrierReturns\nCHECK_DEADLOCK FALSE\n")


def run_model(ctx, gen_dir, cfgpath, label, module="QsMOGen", **kw):
    """TLC on the generated wrapper module (lives in the work dir; specs found through TLA-Library)."""
    old = tlc.COMMON
    tlc.COMMON = old + os.pathsep + SPEC
    try:
        sd_rel = os.path.relpath(gen_dir, os.path.join(core.VERIF, "spec"))
        return ctx.model(sd_rel, module, cfgpath, must_hold=False, **kw)
    finally:
        tlc.COMMON = old


def whole_call_stage(ctx):
    """Binds spec/Apalache/QsInd.tla (whole-call protocol, invariant proved inductive by Apalache for an unbounded period
    counter) to the real qs.hpp: TLC explores QsInd up to a bounded counter (IndInv must hold in every reachable state)
    and emits one call history per transition; those and long random call sequences run on the real domain one call at
    a time (harness/qs_whole.cpp logs the private protocol state after every call); QsWholeTrace.tla accepts a call only
    if it is the QsInd action with exactly the logged successor state and that state satisfies IndInv."""
    binary, _ = build.build("qs_whole", ["qs_whole.cpp"], compiler="g++")
    old = tlc.COMMON
    tlc.COMMON = old + os.pathsep + os.path.join(core.VERIF, "spec", "Apalache")
    try:
        r = ctx.model("QS", "MCQsInd", "MCQsInd.cfg" if ctx.quick else "MCQsInd_t.cfg", workers=8, xmx="8g", timeout=3000)
        hists = list(tlc.printed_tuples(r, "H", budget=6000 if ctx.quick else 60000))
        for h in hists:
            ctx.count_history(["qs_whole"] + h)
        hp = os.path.join(ctx.work, "qs_whole.hist")
        core.write_ndjson(hp, hists)
        tp = os.path.join(ctx.work, "qs_whole.trace")
        core.run_histories(binary, ["--agents", "3", "--nodes", "2"], hp, tp, len(hists))
        nrand, ln = (40, 400) if ctx.quick else (400, 2000)
        tr = os.path.join(ctx.work, "qs_whole_rnd.trace")
        core.run_histories(binary, ["--agents", "3", "--nodes", "2", "--random", str(nrand), "--len", str(ln), "--seed", str(ctx.seed)], None, tr, nrand)
        with open(tp, "a") as out:
            out.write(open(tr).read())
        ctx.cov["whole_call_histories"] = len(hists) + nrand
        # QsInd is implementation-shaped (exact counters): a call whose net effect differs from it is MODEL-DRIFT, not a
        # verdict; only the ghost-based clause (a callback while an owed agent has not quiesced) and crashes accuse
        v = tlc.validate_trace(os.path.join(core.VERIF, "spec", "QS"), "QsWholeTrace", "QsWholeTrace.cfg", tp)
        if v.infra:
            raise core.Infra(v.infra)
        ctx.cov["stages"].append({"stage": "qs whole-call conformance with QsInd (tour + long random runs)", "events": v.events,
                                  "executions": v.executions, "checked_steps": v.checked, "rejections": len(v.rejects)})
        ctx.cov["traces_validated_against_impl"] += v.executions
        ctx.log("validated qs whole-call conformance: %d executions, %d events, %d checked steps, %d rejections" % (v.executions, v.events, v.checked, len(v.rejects)))
        lines = open(tp).readlines()
        drift = [rj for rj in v.rejects if rj["pid"] == "DRIFT"]
        if drift:
            d0 = drift[0]
            msg = "whole-call effect differs from QsInd (%s) at %s" % (d0["clause"], lines[d0["line"] - 1].strip()[:200])
            print("MODEL-DRIFT component=qs/whole-call first-divergence=%s (QsInd no longer describes the code; its Apalache result says nothing about this tree; property-layer checks still apply)" % msg)
            ctx.notes.append("MODEL-DRIFT qs/whole-call: %d executions diverge; %s" % (len(drift), msg))
        for rj in v.rejects:
            if rj["pid"] == "C11":
                a = rj["line"]
                while a > 1 and not lines[a - 1].startswith('{"e":"Reset"'):
                    a -= 1
                ctx.report("C11/whole/%s" % rj["clause"], "whole-call trace rejected at line %d: clause %s; event %s" % (rj["line"], rj["clause"], lines[rj["line"] - 1].strip()[:300]),
                           artefact_lines=lines[a - 1:rj["line"]])
    finally:
        tlc.COMMON = old


def witness_stage(ctx, binary):
    """Rare-branch witnesses: TLC refutes "the CAS on the desired counter never fails short of its target" in QsImpl
    (2 agents, 3 nodes, atomic-access granularity); the history of each shortest counterexample is a schedule that puts
    the real code into that branch (three registrations around a period change, the other agent's CAS between this
    agent's load and its CAS).  Each is replayed with the fair drain after it: every registered callback must run."""
    uniq = []
    # await_barrier's CAS loop (3 nodes, no barrier) and quiescent_barrier's own CAS loop (2 nodes + the barrier)
    for nm, inv, nn, barr in (("qs_witness.cfg", "NoCasRetryWitness", 3, "FALSE"), ("qs_witness_b.cfg", "NoBarrierCasRetryWitness", 2, "TRUE")):
        c = cfg(ctx, nm, 2, nn, 1, 4, 8, "access", WITNESS % inv, barrier=barr)
        r = run_model(ctx, ctx.work, c, "cas-retry witness " + inv, workers=16, xmx="24g", timeout=1500)
        found = 0
        for w in tlc.printed_tuples(r, "W"):
            if w not in uniq:
                uniq.append(w); found += 1
        ctx.cov.setdefault("cas_retry_witnesses_by_branch", {})[inv] = found
    ctx.cov["cas_retry_witness_schedules"] = len(uniq)
    if not uniq:
        ctx.notes.append("no CAS-retry witness found within the bounds (2 agents, 3 nodes, 4 calls each): branch not driven")
        return
    # finish the racing calls in both orders: the agent about to fail first, or the other one first
    sel = []
    for w in uniq:
        last = w[-1]["a"]
        other = 3 - last
        for tail in ([other] * 4 + [last] * 4, [last] * 2 + [other] * 4, [other, last] * 4):
            sel.append(w + [{"a": a, "op": "", "n": 0} for a in tail])
    for h in sel:
        ctx.count_history(["witness"] + h)
    hp = os.path.join(ctx.work, "qs_witness.hist")
    core.write_ndjson(hp, sel)
    tp = os.path.join(ctx.work, "qs_witness.trace")
    core.run_histories(binary, ["--agents", "2", "--nodes", "3", "--drainevery", "1"], hp, tp, len(sel))
    retried = sum(1 for ln in open(tp) if ".casfail." in ln or '"casfail"' in ln)
    ctx.cov["cas_retry_witness_replays"] = len(sel)
    ctx.cov["cas_failures_observed_in_replays"] = retried
    ctx.validate("QS", "QsTrace", "QsTrace.cfg", tp, "qs rare-branch witness schedules (CAS retry) + fair drain", keyfn=key)


def run(ctx):
    ctx.cov["rule"] = ("schedules: one per transition of the explored QsImpl state graph (agent id per step + API call "
                       "when a call starts), sampled evenly when the graph is larger than the replay budget, plus "
                       "harness-generated random schedules; non-trivial = at least 2 steps; distinct by hash")
    binary, _ = build.build("qs", ["qs.cpp"])
    # (1) random schedules on the real code: 2..4 agents
    tp = os.path.join(ctx.work, "qs_rnd.trace")
    open(tp, "w").close()
    plans = [(2, 3, 150, 10), (3, 3, 150, 12)] if ctx.quick else [(2, 3, 1500, 12), (3, 4, 1500, 14), (4, 4, 600, 14), (6, 4, 200, 12)]
    for i, (ag, nn, n, budget) in enumerate(plans):
        part = tp + ".%d" % i
        open(part + ".in", "w").close()
        core.run_histories(binary, ["--agents", str(ag), "--nodes", str(nn), "--random", str(n), "--seed",
                                    str(ctx.seed + i), "--budget", str(budget)], part + ".in", part, n)
        with open(tp, "a") as out:
            out.write(open(part).read())
    ctx.validate("QS", "QsTrace", "QsTrace.cfg", tp, "qs random schedules", keyfn=key)
    # (2) the code's own memory orders -> HB model
    seen = extract_sites(tp)
    table, drift = mo_table(seen)
    ctx.cov["memory_orders"] = {s: table.get(s) for s in SITES}
    if drift:
        print("MODEL-DRIFT component=qs first-divergence=%s (QsImpl not re-instantiated; trace-level checks still apply)" % drift)
        ctx.notes.append("MODEL-DRIFT qs: " + drift)
        return
    write_mo_module(ctx, table)
    # exhaustive configurations (sizes measured, see DESIGN.md): name, agents, nodes, joins, ops, maxc, granularity, barrier
    quick = [("acc_a2_barrier", 2, 1, 1, 3, 7, "access", "TRUE"),
             ("acc_a3", 3, 1, 1, 3, 7, "access", "FALSE"),
             ("acc_a2_n2", 2, 2, 2, 4, 8, "access", "FALSE"),
             ("op_a3_barrier", 3, 1, 1, 2, 8, "op", "TRUE"),
             ("op_a3_n2", 3, 2, 1, 3, 8, "op", "FALSE")]
    thorough = quick + [("acc_a2_n2_o5", 2, 2, 2, 5, 9, "access", "FALSE"),
                        ("acc_a2_barrier_j2", 2, 1, 2, 4, 8, "access", "TRUE")]
    for (nm, ag, nn, jn, ops, maxc, gran, barr) in (quick if ctx.quick else thorough):
        c = cfg(ctx, "qs_%s.cfg" % nm, ag, nn, jn, ops, maxc, gran, SAFETY, barrier=barr)
        r = run_model(ctx, ctx.work, c, nm, workers=16, xmx="24g", timeout=7000)
        if r.violation:
            ctx.report("C11/model/%s" % r.violated_name,
                       "TLC: %s in QsImpl (%s granularity, %d agents) instantiated with the code's memory orders %s"
                       % (r.violation, gran, ag, {k: v for k, v in table.items() if v != "rlx"}),
                       artefact_text=r.out[-12000:])
    # the replay tour: atomic-access granularity, 2 agents, every transition emitted as a schedule
    c_acc = cfg(ctx, "qs_tour.cfg", 2, 1, 2, 4, 8, "access", TOUR, barrier="FALSE")
    r = run_model(ctx, ctx.work, c_acc, "tour", workers=16, xmx="24g", timeout=6000)
    hists = []
    if r.violation:
        ctx.report("C11/model/%s" % r.violated_name, "TLC: %s in QsImpl (tour configuration) instantiated with "
                   "the code's memory orders" % r.violation, artefact_text=r.out[-12000:])
    else:
        hists = list(tlc.printed_tuples(r, "H"))
    # a smaller tour with quiescent_barrier
    c_accb = cfg(ctx, "qs_tourb.cfg", 2, 1, 1, 2, 6, "access", TOUR, barrier="TRUE")
    rb = run_model(ctx, ctx.work, c_accb, "tour-barrier", workers=16, xmx="24g", timeout=6000)
    if rb.violation:
        ctx.report("C11/model/%s" % rb.violated_name, "TLC: %s in QsImpl (barrier tour configuration)" % rb.violation,
                   artefact_text=rb.out[-12000:])
    else:
        hists += list(tlc.printed_tuples(rb, "H"))
    # liveness (small, fair)
    c_live = cfg(ctx, "qs_live.cfg", 2, 1, 1, 2, 7, "access", LIVE, free="TRUE", barrier="TRUE")
    rl = run_model(ctx, ctx.work, c_live, "live", module="QsMOGenLive", workers=8, xmx="16g", timeout=3000)
    if rl.violation:
        ctx.report("C11/model/liveness", "TLC: %s (fair agents, QsImpl with the code's orders)" % rl.violation,
                   artefact_text=rl.out[-12000:])
    # negative controls: the model must notice a missing order / a wrong target
    bad = dict(table); bad["quiescent_state.counter.store.1"] = "rlx"; bad["quiescent_state.counter.store.0"] = "rlx"
    bad["offline.counter.store.0"] = "rlx"
    write_mo_module(ctx, bad, "QsMOGen")
    try:
        c_neg = cfg(ctx, "qs_neg.cfg", 2, 1, 1, 4, 8, "access", SAFETY, barrier="FALSE")
        old = tlc.COMMON; tlc.COMMON = old + os.pathsep + SPEC
        try:
            ctx.model(os.path.relpath(ctx.work, os.path.join(core.VERIF, "spec")), "QsMOGen", c_neg,
                      expect_violation="*", workers=8, xmx="8g")
        finally:
            tlc.COMMON = old
    finally:
        write_mo_module(ctx, table)
    # (3) replay TLC's schedules
    if hists:
        budget = 12000 if ctx.quick else 60000
        step = max(1, len(hists) // budget)
        sel = hists[::step]
        for h in sel:
            ctx.count_history(h)
        ctx.sample({"component": "qs", "schedule": sel[len(sel) // 2]})
        hp = os.path.join(ctx.work, "qs.hist")
        core.write_ndjson(hp, sel)
        tp2 = os.path.join(ctx.work, "qs_tour.trace")
        core.run_histories(binary, ["--agents", "2", "--nodes", "2"], hp, tp2, len(sel))
        ctx.cov["tour_histories_total"] = len(hists)
        ctx.cov["tour_histories_replayed"] = len(sel)
        ctx.validate("QS", "QsTrace", "QsTrace.cfg", tp2, "qs TLC schedules", keyfn=key)
    witness_stage(ctx, binary)
    from props import witness
    witness.tsan_witness(ctx)
    # whole-operation protocol with an UNBOUNDED period counter (spec/Apalache/QsInd.tla): 4 agents, 3 nodes
    from props import inductive
    inductive.discharge(ctx, "QsInd", "CInit4", [("Init", "IndInv", 0), ("IndInv", "IndInv", 1), ("IndInv", "Safety", 0), ("IndInv", "AssertsHold", 0)],
                        ("IndInv", "NextBroken", "IndInv", 1),
                        "QS domain at whole-call granularity: a callback fires only after every agent online at registration has quiesced or left; no assertion of qs.hpp reachable; 4 agents, 3 nodes, unbounded period counter")
    whole_call_stage(ctx)

"""C17: optional, expected, variant, tuple, manual_box are faithful value holders."""
import os, json, random
from lib import core, tlc, build

KINDS = {"optional": ["int", "tracked", "moveonly"], "expected": ["int", "tracked", "moveonly"],
         "variant": ["int", "tracked", "moveonly"], "manual_box": ["int", "tracked"]}


def key(rj, lines):
    try:
        ev = json.loads(rj["event"])
    except Exception:
        ev = {}
    a, _ = rj["exec_lines"]
    kind = "?"
    try:
        kind = json.loads(lines[a - 1]).get("kind", "?")
    except Exception:
        pass
    return "C17/%s/%s/%s" % (kind, rj["clause"], ev.get("name", ev.get("e", "?")))


def long_histories(hists, n, length, rng):
    """Concatenate transitions into longer operation sequences (the last operation of each shortest history)."""
    ops = [h[-1] for h in hists if h]
    out = []
    for _ in range(n):
        out.append([rng.choice(ops) for _ in range(length)])
    return out


def run(ctx):
    ctx.cov["rule"] = ("per holder kind: one history per transition of the closed product graph (destination state x "
                       "source state x operation), replayed with trivial, Tracked and move-only elements next to the "
                       "standard type; plus random operation sequences built from the same operations (legality is "
                       "decided by the trace spec); tuple get/apply/tuple_cat/reference identity over 6 value triples; "
                       "non-trivial = >= 2 operations")
    binary, _ = build.build("holders", ["holders.cpp"], compiler="g++", std="c++2b")
    rng = random.Random(ctx.seed)
    tp = os.path.join(ctx.work, "holders.trace")
    open(tp, "w").close()
    for kind, elems in KINDS.items():
        r = ctx.model("Val", "Holders", "Holders_%s.cfg" % kind, workers=4, xmx="2g")
        hists = list(tlc.printed_tuples(r, "H"))
        if kind == "manual_box":
            extra = []
        else:
            extra = long_histories(hists, 200 if ctx.quick else 4000, 12, rng)
        allh = hists + extra
        for h in allh:
            ctx.count_history([kind] + h)
        ctx.sample({"kind": kind, "history": hists[len(hists) // 2]})
        hp = os.path.join(ctx.work, "holders_%s.hist" % kind)
        core.write_ndjson(hp, allh)
        for elem in elems:
            part = tp + ".part"
            core.run_histories(binary, ["--kind", kind, "--elem", elem], hp, part, len(allh))
            with open(tp, "a") as out:
                out.write(open(part).read())
            os.remove(part)
    part = tp + ".part"
    open(part + ".in", "w").close()
    core.run_histories(binary, ["--kind", "tuple"], part + ".in", part, 1)
    with open(tp, "a") as out:
        out.write(open(part).read())
    v = ctx.validate("Val", "HoldersTrace", "HoldersTrace.cfg", tp, "holders", keyfn=key)
    if any(rj["pid"] == "SPEC" for rj in v.rejects):
        raise core.Infra("HolderOps.tla disagrees with the standard type (specification error, not a frigg violation): %s"
                         % [rj["event"][:200] for rj in v.rejects if rj["pid"] == "SPEC"][:2])

"""C17: optional, expected, variant, tuple, manual_box are faithful value holders."""
import os, json, random
from lib import core, tlc, build

KINDS = {"optional": ["int", "tracked", "moveonly"], "expected": ["int", "tracked", "moveonly"], "expected_void": ["int"],
         "variant": ["int", "tracked", "moveonly"], "manual_box": ["int", "tracked"]}


def key(rj, lines):
    try:
        ev = json.loads(rj["event"])
    except Exception:
        ev = {}
    a, _ = rj["exec_lines"]
    kind = "?"
    try:
        kind = json.loads(lines[a - 1]).get("kind", "?")
    except Exception:
        pass
    return "C17/%s/%s/%s" % (kind, rj["clause"], ev.get("name", ev.get("e", "?")))


_PRE = ("#include <frg/optional.hpp>\n#include <frg/expected.hpp>\n#include <frg/variant.hpp>\n#include <frg/tuple.hpp>\n"
        "#include <frg/manual_box.hpp>\nstruct V { long long v; V(long long x = 0) : v(x) {} };\nenum class Err : int { none = 0, bad = 1 };\n"
        "using O = frg::optional<V>; using E = frg::expected<Err, V>; using W = frg::variant<long long, V>;")
# every public state-changing operation and accessor the property names, one statement each
PROBES = [(lbl, _PRE, st) for lbl, st in [
    ("optional/construct", "O a; O b(frg::null_opt); V v(1); O c(v); O d(V(2)); O e(3); O f(c); O g(std::move(d));"),
    ("optional/copy_assign", "O a, b; a = b;"), ("optional/move_assign", "O a, b; a = std::move(b);"),
    ("optional/converting_copy_assign", "O a; const frg::optional<int> b; a = b;"),
    ("optional/converting_move_assign", "O a; frg::optional<int> b; a = std::move(b);"),
    ("optional/emplace", "O a; a.emplace(1);"),
    ("optional/accessors", "O a(1); const O &c = a; (void)a.has_value(); (void)(bool)a; (void)*a; (void)*c; (void)a->v; (void)a.value(); (void)c.value();"),
    ("expected/construct", "E a; E b(Err::bad); E c(V(1)); E d(c); E e(std::move(c));"),
    ("expected/copy_assign", "E a, b; a = b;"), ("expected/move_assign", "E a, b; a = std::move(b);"),
    ("expected/accessors", "E a(V(1)); const E &c = a; (void)(bool)a; (void)a.maybe_error(); (void)a.error(); (void)a.value(); (void)c.value(); (void)a.unwrap();"),
    ("variant/construct", "W a; W b(V(1)); W c(b); W d(std::move(b));"),
    ("variant/assign", "W a, b; a = b; a = std::move(b);"),
    ("variant/emplace", "W a; a.emplace<V>(1); a.emplace<long long>(2);"),
    ("variant/accessors", "W a(V(1)); const W &c = a; (void)(bool)a; (void)a.tag(); (void)a.is<V>(); (void)a.get<V>(); (void)c.get<V>();"),
    ("variant/apply", "W a(V(1)); (void)a.apply([](auto &x) { return 0; });"),
    ("variant/const_apply", "const W a(V(1)); (void)a.const_apply([](const auto &x) { return 0; });"),
    ("manual_box", "frg::manual_box<V> b; b.initialize(1); (void)b.valid(); (void)(bool)b; (void)b.get(); (void)*b; (void)b->v; b.destruct();"),
    ("tuple", "frg::tuple<int, V> t(1, V(2)); (void)t.get<0>(); auto u = frg::tuple_cat(t, frg::make_tuple(3)); "
              "(void)frg::apply([](int a, V b) { return a; }, t); frg::tuple<long long, V> c(t);"),
    ("tuple/tuple_cat_of_reference_elements", "int x = 1; frg::tuple<int &, int> r(x, 2); frg::tuple<int &> r2(x); auto c = frg::tuple_cat(r, r2); (void)c;"),
]]


def long_histories(hists, n, length, rng):
    """Concatenate transitions into longer operation sequences (the last operation of each shortest history)."""
    ops = [h[-1] for h in hists if h]
    out = []
    for _ in range(n):
        out.append([rng.choice(ops) for _ in range(length)])
    return out


def run(ctx):
    ctx.cov["rule"] = ("per holder kind: one history per transition of the closed product graph (destination state x "
                       "source state x operation), replayed with trivial, Tracked and move-only elements next to the "
                       "standard type; plus random operation sequences built from the same operations (legality is "
                       "decided by the trace spec); tuple get/apply/tuple_cat/reference identity over 6 value triples; "
                       "non-trivial = >= 2 operations")
    binary, _ = ctx.build_or_probe(PROBES, "holders", ["holders.cpp"], compiler="g++", std="c++2b")
    if binary is None:
        return      # an operation of the property does not instantiate: reported above, nothing can be replayed
    rng = random.Random(ctx.seed)
    tp = os.path.join(ctx.work, "holders.trace")
    open(tp, "w").close()
    for kind, elems in KINDS.items():
        r = ctx.model("Val", "Holders", "Holders_%s.cfg" % kind, workers=4, xmx="2g")
        hists = list(tlc.printed_tuples(r, "H"))
        if kind == "manual_box":
            extra = []
        else:
            extra = long_histories(hists, 200 if ctx.quick else 4000, 12, rng)
        allh = hists + extra
        for h in allh:
            ctx.count_history([kind] + h)
        ctx.sample({"kind": kind, "history": hists[len(hists) // 2]})
        hp = os.path.join(ctx.work, "holders_%s.hist" % kind)
        core.write_ndjson(hp, allh)
        for elem in elems:
            part = tp + ".part"
            core.run_histories(binary, ["--kind", kind, "--elem", elem], hp, part, len(allh))
            with open(tp, "a") as out:
                out.write(open(part).read())
            os.remove(part)
    part = tp + ".part"
    open(part + ".in", "w").close()
    core.run_histories(binary, ["--kind", "tuple"], part + ".in", part, 1)
    with open(tp, "a") as out:
        out.write(open(part).read())
    v = ctx.validate("Val", "HoldersTrace", "HoldersTrace.cfg", tp, "holders", keyfn=key)
    if any(rj["pid"] == "SPEC" for rj in v.rejects):
        raise core.Infra("HolderOps.tla disagrees with the standard type (specification error, not a frigg violation): %s"
                         % [rj["event"][:200] for rj in v.rejects if rj["pid"] == "SPEC"][:2])

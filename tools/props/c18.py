"""C18: bitset, array, PRNGs and sort agree with their standard references."""
import os, json
from lib import core, tlc, build


def key(rj, lines):
    try:
        ev = json.loads(rj["event"])
    except Exception:
        ev = {}
    feat = ev.get("name", ev.get("e", "?"))
    if ev.get("e") == "crash":
        w = ev.get("what", "")
        for fn in ("operator<<=", "operator>>=", "back", "operator~"):
            if fn in w:
                feat = "crash/" + fn
    a, _ = rj["exec_lines"]
    n = "?"
    try:
        n = json.loads(lines[a - 1]).get("kind", "?")
    except Exception:
        pass
    return "C18/%s/%s/%s" % (n, rj["clause"], feat)


def run(ctx):
    ctx.cov["rule"] = ("bitset: one history per transition of the closed graph of two bitsets for N in {1,2,3} under every "
                       "operation (construction from every bit pattern, set/reset/flip, bit references, &= |= ^= ~, shifts "
                       "0..N+2), plus random operation sequences for 21 values of N up to 320 with positions and shift "
                       "amounts at word boundaries and beyond N; array observations; insertion_sort on every array over "
                       "{1,2,3} up to length 6 with three comparators; PRNG streams as an auxiliary differential; "
                       "non-trivial = >= 2 operations / arrays of length >= 2")
    binary, _ = build.build("bits", ["bits.cpp"])
    tp = os.path.join(ctx.work, "bits.trace")
    open(tp, "w").close()

    def add(args, items, n=None):
        hp = os.path.join(ctx.work, "bits.hist")
        core.write_ndjson(hp, items)
        part = tp + ".part"
        core.run_histories(binary, args, hp, part, n if n is not None else len(items))
        with open(tp, "a") as out:
            out.write(open(part).read())
        os.remove(part)

    for n in (1, 2, 3):
        r = ctx.model("Bits", "Bitset", "Bitset_%d.cfg" % n, workers=4, xmx="2g")
        hists = list(tlc.printed_tuples(r, "H"))
        for h in hists:
            ctx.count_history([n] + h)
        if n == 3:
            ctx.sample({"N": 3, "history": hists[len(hists) // 2]})
        add(["--mode", "bitset", "--n", str(n)], hists)
    reps, ln = (2, 120) if ctx.quick else (20, 400)
    add(["--mode", "random", "--reps", str(reps), "--len", str(ln), "--seed", str(ctx.seed)], [], n=21 * reps)
    add(["--mode", "array"], [], n=1)
    r = ctx.model("Bits", "SortInputs", "SortInputs.cfg", workers=4, xmx="2g")
    ins = list(tlc.printed_tuples(r, "H"))
    for i in ins:
        ctx.count_history(i["in"])
    add(["--mode", "sort"], ins)
    add(["--mode", "prng", "--seeds", "40" if ctx.quick else "2000", "--seed", str(ctx.seed)], [], n=1)
    ctx.cov["prng_clause"] = "auxiliary differential against std::mt19937 and the published PCG recurrence; not part of the TLA+ claim"
    ctx.validate("Bits", "BitsTrace", "BitsTrace.cfg", tp, "bitset/array/sort/prng", keyfn=key)

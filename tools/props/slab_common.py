"""Shared pipeline of the slab-pool properties C01-C05: one family of traces, one trace specification;
each property's check reports the rejections whose guard carries its own id."""
import os, json, re
from lib import core, tlc, build


def key_for(pid):
    def key(rj, lines):
        ev = {}
        try:
            ev = json.loads(rj["event"])
        except Exception:
            pass
        feat = ev.get("op", ev.get("e", "?"))
        if ev.get("e") == "crash":
            w = ev.get("what", "")
            kind = "use-after-poison" if "use-after-poison" in w else ("segv" if "SEGV" in w else "other")
            fr = re.search(r"frg::slab_pool<[^@]*?>::(\w+)\(", w)
            feat = "crash/%s/%s" % (kind, fr.group(1) if fr else "?")
        return "%s/%s/%s" % (rj["pid"], rj["clause"], feat)
    return key


def run_slab(ctx):
    pid = ctx.pid
    ctx.cov["rule"] = ("histories of allocate/free/deallocate/realloc/get_size over sizes at every class boundary, the "
                       "small/large threshold, page rounding and several superblocks, on several pool geometries x "
                       "{aligned, unaligned map} x {poisoning, none}; churn histories; histories with failing map(); "
                       "concurrent scripts under TLC-generated and random schedules; every policy callback and mutex "
                       "operation is an event; non-trivial = >= 2 calls; distinct by hash of the call list")
    binary, _ = build.build("slab", ["slab.cpp"])
    q = ctx.quick
    plans = []
    # (geometry, flags, mode, count, len, extra)
    for geom, flagsets in (("tiny", [[], ["--aligned"], ["--poison"], ["--aligned", "--poison"]]),
                           ("small", [["--poison"], ["--aligned", "--poison"]]),
                           ("mid", [["--aligned"]]), ("default", [[], ["--poison", "--aligned"]])):
        for fl in flagsets:
            plans.append((geom, fl, "mixed", 2 if q else 30, 220 if q else 600, []))
    plans.append(("tiny", ["--poison"], "churn", 2 if q else 20, 500 if q else 3000, []))
    plans.append(("small", [], "churn", 1 if q else 10, 800 if q else 5000, []))
    plans.append(("tiny", ["--poison"], "mixed", 4 if q else 40, 200 if q else 400, ["--failpct", "20"]))
    plans.append(("small", ["--aligned"], "mixed", 2 if q else 20, 200 if q else 400, ["--failpct", "15"]))
    # the same properties must hold for the FRG_SLAB_TRACK_REGIONS build (every frame also lives in a second red-black
    # tree keyed by address, and the frame header grows by the hook): two configurations with that define
    tracked = build.build("slab_track", ["slab.cpp"], defines=["FRG_SLAB_TRACK_REGIONS"])[0]
    plans.append(("mid", ["--poison"], "mixed", 2 if q else 20, 220 if q else 600, ["@track"]))
    plans.append(("default", ["--aligned"], "mixed", 1 if q else 10, 220 if q else 600, ["@track"]))
    tp = os.path.join(ctx.work, "slab_seq.trace")
    open(tp, "w").close()
    for i, (geom, fl, mode, cnt, ln, extra) in enumerate(plans):
        part = tp + ".%d" % i
        open(part + ".in", "w").close()
        use = tracked if "@track" in extra else binary
        extra = [x for x in extra if x != "@track"]
        core.run_histories(use, ["--geom", geom] + fl + ["--random", str(cnt), "--len", str(ln), "--mode", mode,
                                                             "--seed", str(ctx.seed + i)] + extra, part + ".in", part, cnt)
        with open(tp, "a") as out:
            out.write(open(part).read())
        os.remove(part)
    ctx.cov["configurations"] = len(plans)
    ctx.validate("Slab", "SlabTrace", "SlabTrace.cfg", tp, "slab sequential histories", keyfn=key_for(pid), env={"OWN": ctx.pid})
    # concurrent scripts under random schedules
    tpc = os.path.join(ctx.work, "slab_conc.trace")
    open(tpc, "w").close()
    for i, (geom, fl, th, per, cnt) in enumerate([("tiny", [], 3, 14, 40 if q else 400), ("tiny", ["--aligned"], 2, 20, 30 if q else 300),
                                                   ("small", [], 4, 12, 10 if q else 100)] + ([] if q else [("tiny", [], 6, 10, 100)])):
        part = tpc + ".%d" % i
        open(part + ".in", "w").close()
        core.run_histories(binary, ["--geom", geom] + fl + ["--conc", str(cnt), "--threads", str(th), "--per", str(per),
                                                             "--seed", str(ctx.seed + i)], part + ".in", part, cnt)
        with open(tpc, "a") as out:
            out.write(open(part).read())
        os.remove(part)
    ctx.validate("Slab", "SlabTrace", "SlabTrace.cfg", tpc, "slab concurrent random schedules", keyfn=key_for(pid), env={"OWN": ctx.pid})
    model_stage(ctx, binary)
    if pid == "C05":
        tsan_witness(ctx)
    return binary


def tsan_witness(ctx):
    """Free-running threads on the real pool with frg::ticket_spinlock under ThreadSanitizer: data races
    on pool state between two seam points are invisible to the cooperative scheduler but not to TSan."""
    import subprocess, time
    binary, _ = build.build("slab_tsan", ["slab_tsan.cpp"], sanitize="thread")
    runs = [(4, 20000), (8, 10000), (2, 40000)] if ctx.quick else [(4, 200000), (8, 100000), (2, 400000), (6, 150000), (3, 300000)]
    n = 0
    for i, (th, iters) in enumerate(runs):
        e = dict(os.environ)
        e["TSAN_OPTIONS"] = "halt_on_error=1:exitcode=79:report_signal_unsafe=0"
        try:
            p = subprocess.run([binary, str(th), str(iters), str(ctx.seed + i)], stdout=subprocess.PIPE, stderr=subprocess.PIPE,
                               text=True, env=e, timeout=1500)
        except subprocess.TimeoutExpired:
            ctx.notes.append("TSan witness (%d threads) inconclusive: not finished within the time limit on this machine" % th)
            continue
        n += 1
        if p.returncode != 0:
            what = (p.stderr or "")[:3000]
            kind = "data-race" if "data race" in what else ("panic" if "PANIC" in what else "crash")
            m = re.search(r"frg::slab_pool<[^\n]*?>::(\w+)", what)
            ctx.report("C05/tsan/%s/%s" % (kind, m.group(1) if m else "?"),
                       "ThreadSanitizer witness (%d free-running threads, frg::ticket_spinlock): %s" % (th, what[:400]),
                       artefact_text=what)
            break
    ctx.cov["tsan_witness_runs"] = n
    ctx.cov["stages"].append({"stage": "tsan witness", "runs": n})


TINY = [8, 16, 32, 64]


def size_of(c):
    return 65 if c == 0 else TINY[c - 1]


def convert(hist, nthreads):
    """A SlabPool behaviour -> harness input: per-thread call lists, the schedule, per-slot call order."""
    scripts = [[] for _ in range(nthreads)]
    schedule = []
    slot_of = {}          # model block id -> harness slot
    ver = {}
    nslots = 0
    cur = {}              # thread -> current call dict
    for el in hist:
        t = el["t"]
        if el["op"]:
            if el["op"] == "alloc":
                slot = nslots; nslots += 1
                slot_of[el["b"]] = slot
                call = {"op": "alloc", "n": size_of(el["c"]), "b": slot, "fail": el["fail"], "ver": 0}
                ver[slot] = 1
            elif el["op"] == "free":
                slot = slot_of[el["b"]]
                call = {"op": "free" if (slot + len(schedule)) % 2 else "dealloc", "n": 0, "b": slot, "fail": 0, "ver": ver[slot]}
                ver[slot] += 1
            else:
                slot = slot_of[el["b"]]
                slot_of[el["nb"]] = slot
                call = {"op": "realloc", "n": size_of(el["c"]), "b": slot, "fail": 0, "ver": ver[slot]}
                ver[slot] += 1
            scripts[t].append(call)
            cur[t] = call
        elif el["fail"]:
            cur[t]["fail"] += 1
        schedule.append(t)
    return scripts, schedule


def model_stage(ctx, binary):
    pid = ctx.pid
    q = ctx.quick
    plans = [("MCSlab_seqfail.cfg", 1, 5000 if q else 120000), ("MCSlab_conc2.cfg", 2, 5000 if q else 120000)]
    if not q:
        plans += [("MCSlab_conc2b.cfg", 2, 0), ("MCSlab_conc3.cfg", 3, 0)]
    for cfgname, nth, budget in plans:
        r = ctx.model("Slab", "MCSlab", cfgname, workers=16, xmx="24g", timeout=7000)
        if budget == 0:
            continue
        sel = list(tlc.printed_tuples(r, "H", budget=budget))
        hists = range(r.emitted)
        items = []
        for h in sel:
            ctx.count_history(h)
            scripts, schedule = convert(h, nth)
            items.append({"scripts": scripts, "schedule": schedule})
        ctx.sample({"config": cfgname, "behaviour": items[len(items) // 2]})
        hp = os.path.join(ctx.work, cfgname + ".hist")
        core.write_ndjson(hp, items)
        tp = os.path.join(ctx.work, cfgname + ".trace")
        core.run_histories(binary, ["--geom", "tiny"], hp, tp, len(items))
        ctx.cov.setdefault("tours", []).append({"config": cfgname, "transitions": len(hists), "replayed": len(items)})
        ctx.validate("Slab", "SlabTrace", "SlabTrace.cfg", tp, "slab TLC behaviours " + cfgname, keyfn=key_for(pid), env={"OWN": ctx.pid})
    ctx.model("Slab", "SlabPool", "MCSlab_live.cfg", workers=8, xmx="8g")

"""C16: each element is destroyed exactly once; each allocation returned exactly once."""
import os, json, random
from lib import core, tlc, build


def key(rj, lines):
    try:
        ev = json.loads(rj["event"])
    except Exception:
        ev = {}
    a, b = rj["exec_lines"]
    kind, opname = "?", "?"
    try:
        kind = json.loads(lines[a - 1]).get("kind", "hash_map")
    except Exception:
        pass
    # the owner operation in progress: the last OpBegin before the rejected line
    for i in range(rj["line"] - 1, a - 1, -1):
        if lines[i - 1].startswith('{"e":"OpBegin"'):
            try:
                opname = json.loads(lines[i - 1]).get("name", "?")
            except Exception:
                pass
            break
    if ev.get("e") == "OwnerGone":
        opname = "owner_destroyed"
    if kind == "small_vector":
        # small_vector swaps / move-constructs by exchanging its inline storage bytewise: elements change
        # address without a move (see known_findings.jsonl). The finding is identified by that history feature.
        names = []
        for i in range(a, rj["line"]):
            if lines[i - 1].startswith('{"e":"OpBegin"'):
                try:
                    names.append(json.loads(lines[i - 1]).get("name"))
                except Exception:
                    pass
        if any(n in ("swap", "move_construct") for n in names):
            return "C16/small_vector/%s/after_bytewise_swap_or_move_of_inline_storage" % rj["clause"]
    return "C16/%s/%s/%s" % (kind, rj["clause"], opname)


def run(ctx):
    ctx.cov["rule"] = ("event streams (element constructions/assignments/destructions, allocator calls) of all owning "
                       "types under the operation sequences of the C13 / C14 / C17 graphs with Tracked elements and a "
                       "block-logging allocator, plus scripts for unique_ptr, unique_memory, string, list, tuple and the "
                       "radix tree; every event is a ledger action; non-trivial = >= 2 owner operations")
    ctx.model("Life", "Lifetime", "Lifetime.cfg", workers=4, xmx="2g")
    rng = random.Random(ctx.seed)
    tp = os.path.join(ctx.work, "ledger.trace")
    open(tp, "w").close()

    def add(binary, args, hp, n):
        part = tp + ".part"
        core.run_histories(binary, args, hp, part, n)
        with open(tp, "a") as out:
            out.write(open(part).read())
        os.remove(part)

    # containers (C13 graphs) with Tracked elements
    cbin, _ = build.build("containers", ["containers.cpp"])
    for kind in ("vector", "small_vector", "dyn_array", "stack", "list"):
        r = ctx.model("Seq", "MCSeq", "MCSeq_%s.cfg" % kind, workers=8, xmx="8g")
        sel = list(tlc.printed_tuples(r, "H", budget=3000 if ctx.quick else 60000))
        for h in sel:
            ctx.count_history([kind] + h)
        ctx.sample({"owner": kind, "history": sel[len(sel) // 2]})
        hp = os.path.join(ctx.work, "led_%s.hist" % kind)
        core.write_ndjson(hp, sel)
        add(cbin, ["--kind", kind, "--tracked", "--lastonly"], hp, len(sel))
        if kind == "small_vector":
            add(cbin, ["--kind", "small_vector1", "--tracked", "--lastonly"], hp, len(sel))
        empty = os.path.join(ctx.work, "empty.in")
        open(empty, "w").close()
        cnt, ln = (3, 250) if ctx.quick else (40, 1500)
        add(cbin, ["--kind", kind, "--tracked", "--random", str(cnt), "--len", str(ln), "--seed", str(ctx.seed)], empty, cnt)
    # hash_map (C14 graph)
    hbin, _ = build.build("hashmap", ["hashmap.cpp"])
    r = ctx.model("Hash", "MCHash", "MCHash_11.cfg", workers=16, xmx="16g")
    sel = list(tlc.printed_tuples(r, "H", budget=2500 if ctx.quick else 60000))
    for h in sel:
        ctx.count_history(["hash_map"] + h)
    hp = os.path.join(ctx.work, "led_hash.hist")
    core.write_ndjson(hp, sel)
    for mode in (0, 1):
        add(hbin, ["--hash", str(mode), "--nkeys", "11", "--tracked", "--lastonly"], hp, len(sel))
    # holders (C17 graphs)
    vbin, _ = build.build("holders", ["holders.cpp"], compiler="g++", std="c++2b")
    for kind in ("optional", "expected", "variant", "manual_box"):
        r = ctx.model("Val", "Holders", "Holders_%s.cfg" % kind, workers=4, xmx="2g")
        hists = list(tlc.printed_tuples(r, "H"))
        ops = [h[-1] for h in hists]
        extra = [] if kind == "manual_box" else [[rng.choice(ops) for _ in range(10)] for _ in range(150 if ctx.quick else 3000)]
        allh = hists + extra
        for h in allh:
            ctx.count_history([kind] + h)
        hp = os.path.join(ctx.work, "led_%s.hist" % kind)
        core.write_ndjson(hp, allh)
        add(vbin, ["--kind", kind, "--elem", "tracked", "--ledger"], hp, len(allh))
    # further owners: unique_ptr, unique_memory, string, list, tuple, radix tree
    obin, _ = build.build("owners", ["owners.cpp"], flags=["-fno-sanitize=nonnull-attribute"])
    for kind in ("unique_ptr", "unique_memory", "string", "list", "tuple", "radix"):
        r = ctx.model("Life", "OwnerScripts", "OwnerScripts_%s.cfg" % kind, workers=4, xmx="2g")
        hists = list(tlc.printed_tuples(r, "H", budget=4000 if ctx.quick else 60000))
        for h in hists:
            ctx.count_history([kind] + h)
        ctx.sample({"owner": kind, "history": hists[len(hists) // 2]})
        hp = os.path.join(ctx.work, "led_%s.hist" % kind)
        core.write_ndjson(hp, hists)
        add(obin, ["--kind", kind], hp, len(hists))
    ctx.validate("Life", "LifetimeTrace", "LifetimeTrace.cfg", tp, "lifetime ledger", keyfn=key)

"""C15: strings and string views denote exactly their character sequence, in bounds."""
import os, json, random
from lib import core, tlc, build


def key(rj, lines):
    try:
        ev = json.loads(rj["event"])
    except Exception:
        ev = {}
    return "C15/%s/%s" % (rj["clause"], ev.get("name", ev.get("e", "?")))


def run(ctx):
    ctx.cov["rule"] = ("every pair of strings over {a, b, NUL} up to length 3 (4 in the thorough tier) with all pure "
                       "observers evaluated on the pair; one history per transition of the owned-string graph under its "
                       "mutating operations; digit/non-digit strings for to_number; random longer strings; all source "
                       "buffers are exact-size heap blocks under ASan; non-trivial = a pair with a non-empty member or "
                       ">= 2 mutations")
    binary, _ = build.build("strings", ["strings.cpp"], flags=["-fno-sanitize=nonnull-attribute"])
    rng = random.Random(ctx.seed)
    tp = os.path.join(ctx.work, "str.trace")
    open(tp, "w").close()

    def add(mode, items):
        hp = os.path.join(ctx.work, "str_%s.hist" % mode)
        core.write_ndjson(hp, items)
        part = tp + ".part"
        core.run_histories(binary, ["--mode", mode], hp, part, len(items))
        with open(tp, "a") as out:
            out.write(open(part).read())
        os.remove(part)

    r = ctx.model("Str", "Strings", "Strings_pairs.cfg" if ctx.quick else "Strings_pairs4.cfg", workers=8, xmx="8g")
    pairs = list(tlc.printed_tuples(r, "H", budget=None if ctx.quick else 120000))
    for p in pairs:
        ctx.count_history([p["a"], p["b"]])
    # random longer pairs (lengths to 40; hash checked only where it stays below 2^31: length <= 5)
    extra = []
    for _ in range(300 if ctx.quick else 5000):
        la, lb = rng.randint(0, 5), rng.randint(0, 5)
        extra.append({"a": [rng.choice([97, 98, 0]) for _ in range(la)], "b": [rng.choice([97, 98, 0]) for _ in range(lb)]})
    ctx.sample({"pair": pairs[len(pairs) // 2]})
    add("pairs", pairs + extra)
    r = ctx.model("Str", "Strings", "Strings_mutate.cfg", workers=8, xmx="8g")
    muts = list(tlc.printed_tuples(r, "H"))
    for h in muts:
        ctx.count_history(h)
    ctx.sample({"mutations": muts[len(muts) // 2]})
    add("mutate", muts)
    nums = []
    for ln in range(0, 5):
        for _ in range(40):
            nums.append({"s": [rng.choice([48, 49, 57, 97, 0, 45]) for _ in range(ln)]})
    for _ in range(60):
        nums.append({"s": [rng.choice(range(48, 58)) for _ in range(rng.randint(1, 9))]})
    add("number", nums)
    ctx.validate("Str", "StringsTrace", "StringsTrace.cfg", tp, "strings", keyfn=key)

"""C09: radix tree - exact map over 64-bit keys, stable addresses, ordered iteration."""
import os, json
from lib import core, tlc, build

BASE = 0x0123456789ABCDEF


def embedding(i, j):
    """Six keys: base, base differing at nibble i, at nibble j, in the last nibble, and the two extremes."""
    def flip(k, pos, delta):
        sh = 60 - 4 * pos
        nib = (k >> sh) & 0xF
        return (k & ~(0xF << sh)) | (((nib + delta) & 0xF) << sh)
    ks = [BASE, flip(BASE, i, 5), flip(BASE, j, 9), flip(BASE, 15, -1), 0, 0xFFFFFFFFFFFFFFFF]
    out = []
    for k in ks:
        while k in out:
            k = flip(k, 14, 1)
        out.append(k)
    return out


def key(rj, lines):
    try:
        ev = json.loads(rj["event"])
    except Exception:
        ev = {}
    feat = ev.get("op", ev.get("e", "?"))
    if ev.get("e") == "crash":
        w = ev.get("what", "")
        feat = "crash/" + ("shift" if "shift exponent" in w else ("asan" if "AddressSanitizer" in w else "other"))
    return "C09/%s/%s" % (rj["clause"], feat)


def run(ctx):
    ctx.cov["rule"] = ("one history per transition of the explored Radix.tla graph (state = present keys, insertion "
                       "counts, set of ever-inserted keys = tree structure), replayed under several embeddings of the "
                       "key ids into 64-bit keys so that every nibble position is a first-difference position; "
                       "plus random histories over clustered random key universes; non-trivial = >= 2 calls")
    binary, _ = build.build("radix", ["radix.cpp"])
    cfgname = "MCRadix_5.cfg" if ctx.quick else "MCRadix_6.cfg"
    r = ctx.model("Radix", "MCRadix", cfgname, workers=8, xmx="6g")
    hists = list(tlc.printed_tuples(r, "H"))
    if not hists:
        raise core.Infra("no behaviours emitted")
    for h in hists:
        ctx.count_history(h)
    ctx.sample({"history": hists[len(hists) // 2]})
    # embeddings: every nibble position (incl. the most significant) is a first-difference position
    pairs = [(i, (i + 5) % 16) for i in range(16)]
    if not ctx.quick:
        pairs += [(i, j) for i in range(16) for j in range(i + 1, 16) if (i + j) % 3 == 0]
    per = max(1, len(hists) * len(pairs) // (40000 if ctx.quick else 400000))
    tp_all = os.path.join(ctx.work, "radix_tour.trace")
    open(tp_all, "w").close()
    nexec = 0
    for n, (i, j) in enumerate(pairs):
        sel = hists[n % per::per]
        ks = embedding(i, j)
        hp = os.path.join(ctx.work, "radix_%d.hist" % n)
        core.write_ndjson(hp, sel)
        tp = os.path.join(ctx.work, "radix_%d.trace" % n)
        core.run_histories(binary, ["--keys", ",".join("%x" % k for k in ks)], hp, tp, len(sel))
        with open(tp_all, "a") as out:
            out.write(open(tp).read())
        nexec += len(sel)
        os.remove(tp); os.remove(hp)
    ctx.cov["embeddings"] = len(pairs)
    ctx.validate("Radix", "RadixTrace", "RadixTrace.cfg", tp_all, "radix tour x embeddings", keyfn=key)
    # random histories over random clustered universes
    n, ln, nk = (300, 60, 10) if ctx.quick else (4000, 120, 14)
    tp2 = os.path.join(ctx.work, "radix_rnd.trace")
    open(tp2 + ".in", "w").close()
    core.run_histories(binary, ["--random", str(n), "--len", str(ln), "--nkeys", str(nk), "--seed", str(ctx.seed)],
                       tp2 + ".in", tp2, n)
    ctx.validate("Radix", "RadixTrace", "RadixTrace.cfg", tp2, "radix random", keyfn=key)

"""C08: pairing heap - top is always a maximum; pop/remove take out exactly one element."""
import os, json
from lib import core, tlc, build

PRIO = {6: [1, 1, 2, 2, 3, 3], 7: [1, 1, 2, 2, 3, 3, 4], 8: [1, 1, 2, 2, 3, 3, 4, 1]}


def key(rj, lines):
    try:
        ev = json.loads(rj["event"])
    except Exception:
        ev = {}
    return "C08/%s/%s" % (rj["clause"], ev.get("op", ev.get("e", "?")))


def run(ctx):
    ctx.cov["rule"] = ("one history per transition of the PairingHeapImpl state graph (every reachable heap shape x "
                       "push/pop/remove of every contained element) over a priority multiset with ties; structure logged "
                       "after the last call; plus random histories (random, ascending, descending priorities) with the "
                       "structure checked after every call; non-trivial = >= 2 calls")
    binary, _ = build.build("heap", ["heap.cpp"])
    n = 7 if ctx.quick else 8
    r = ctx.model("Heap", "MCHeap", "MCHeap_%d.cfg" % n, workers=16, xmx="16g", timeout=6000)
    hists = list(tlc.printed_tuples(r, "H"))
    budget = 40000 if ctx.quick else 500000
    step = max(1, len(hists) // budget)
    sel = hists[::step]
    for h in sel:
        ctx.count_history(h)
    ctx.sample({"prio": PRIO[n], "history": sel[len(sel) // 2]})
    hp = os.path.join(ctx.work, "heap.hist")
    core.write_ndjson(hp, sel)
    tp = os.path.join(ctx.work, "heap.trace")
    core.run_histories(binary, ["--prio", ",".join(map(str, PRIO[n])), "--lastonly"], hp, tp, len(sel))
    ctx.cov["tour"] = {"transitions": len(hists), "replayed": len(sel)}
    ctx.validate("Heap", "HeapTrace", "HeapTrace.cfg", tp, "heap tour", keyfn=key)
    plans = [(20, 300, 60, 6), (4, 900, 400, 50)] if ctx.quick else [(300, 400, 80, 6), (40, 2000, 500, 50)]
    tp2 = os.path.join(ctx.work, "heap_rnd.trace")
    open(tp2, "w").close()
    for i, (cnt, ln, nn, ps) in enumerate(plans):
        part = tp2 + ".%d" % i
        open(part + ".in", "w").close()
        core.run_histories(binary, ["--random", str(cnt), "--len", str(ln), "--n", str(nn), "--pspace", str(ps),
                                    "--seed", str(ctx.seed + i)], part + ".in", part, cnt)
        with open(tp2, "a") as out:
            out.write(open(part).read())
    ctx.validate("Heap", "HeapTrace", "HeapTrace.cfg", tp2, "heap random", keyfn=key)

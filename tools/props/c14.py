"""C14: hash_map holds exactly the reference key->value association."""
import os, json
from lib import core, tlc, build


def key(rj, lines):
    try:
        ev = json.loads(rj["event"])
    except Exception:
        ev = {}
    return "C14/%s/%s" % (rj["clause"], ev.get("name", ev.get("e", "?")))


def run(ctx):
    ctx.cov["rule"] = ("one history per transition of the HashMap graph over 11 keys (sizes crossing the first rehash "
                       "threshold with every key as the one inserted at the threshold, maps emptied and refilled), sampled "
                       "evenly above the budget, replayed under 6 hash functions (identity, constant, mod 3, x16, x20, "
                       "multiplicative) with int and Tracked values; random histories over 48 and 200 keys cross the later "
                       "thresholds; non-trivial = >= 2 calls")
    binary, _ = build.build("hashmap", ["hashmap.cpp"])
    r = ctx.model("Hash", "MCHash", "MCHash_11.cfg", workers=16, xmx="16g")
    sel = list(tlc.printed_tuples(r, "H", budget=6000 if ctx.quick else 40000))
    for h in sel:
        ctx.count_history(h)
    ctx.sample({"history": sel[len(sel) // 2]})
    hp = os.path.join(ctx.work, "hash.hist")
    core.write_ndjson(hp, sel)
    tp = os.path.join(ctx.work, "hash_tour.trace")
    open(tp, "w").close()
    for mode in range(6):
        for extra in ([], ["--tracked"]):
            if extra and mode not in (0, 4):
                continue
            part = tp + ".part"
            core.run_histories(binary, ["--hash", str(mode), "--nkeys", "11", "--lastonly"] + extra, hp, part, len(sel))
            with open(tp, "a") as out:
                out.write(open(part).read())
            os.remove(part)
    ctx.cov["tour"] = {"transitions": r.emitted, "replayed_per_hash": len(sel), "hash_functions": 6}
    ctx.validate("Hash", "HashTrace", "HashTrace.cfg", tp, "hash_map tours", keyfn=key)
    tp2 = os.path.join(ctx.work, "hash_rnd.trace")
    open(tp2, "w").close()
    # (keys, histories, calls, observe every k-th call): every observation reads all keys three ways
    plans = [(48, 3, 500, 1), (200, 1, 1500, 1)] if ctx.quick else [(48, 30, 1500, 1), (200, 10, 6000, 20), (1000, 3, 12000, 200)]
    for mode in range(6):
        for nk, cnt, ln, every in plans:
            part = tp2 + ".part"
            open(part + ".in", "w").close()
            core.run_histories(binary, ["--hash", str(mode), "--nkeys", str(nk), "--random", str(cnt), "--len", str(ln),
                                        "--checkevery", str(every), "--seed", str(ctx.seed + mode)], part + ".in", part, cnt)
            with open(tp2, "a") as out:
                out.write(open(part).read())
            os.remove(part)
    ctx.validate("Hash", "HashTrace", "HashTrace.cfg", tp2, "hash_map random histories", keyfn=key)

"""C19: printf/fmt formatting matches the C standard and the documented spec grammar; logger chunking."""
import os, json, itertools
from lib import core, tlc, build

TYPES = {  # length modifier -> (signed C type, unsigned C type, bits, arg type signed, arg type unsigned)
    "": ("int", "uint", 32), "hh": ("int", "uint", 8), "h": ("int", "uint", 16), "l": ("long", "ulong", 64),
    "ll": ("llong", "ullong", 64), "z": ("long", "ulong", 64), "t": ("long", "ulong", 64), "j": ("long", "ulong", 64)}
STRS = ["", "a", "hello", "hi there", "x"]
CHARS = ["A", "z", "0", " ", "~"]


def codes(s):
    return [ord(c) for c in s]


def to_base(n, base, upper=False):
    if n == 0:
        return "0"
    d = "0123456789ABCDEF" if upper else "0123456789abcdef"
    out = ""
    while n:
        out = d[n % base] + out
        n //= base
    return out


def make_case(rec):
    fl, conv, ln, v = rec["flags"], rec["conv"], rec["len"], rec["val"]
    flags = "".join(ch for ch, k in (("-", "minus"), ("+", "plus"), (" ", "space"), ("#", "hash"), ("0", "zero"), ("'", "quote")) if fl[k])
    args = []
    minus = fl["minus"]
    starneg = 0
    width = 0
    w = rec["width"]
    if w == "*":
        args.append(["int", "6"]); width = 6; wtxt = "*"
    elif w == "*-":
        args.append(["int", "-6"]); width = 6; minus = True; starneg = 1; wtxt = "*"      # ISO: a negative * width is a '-' flag and a positive width
    else:
        width = int(w) if w else 0; wtxt = w
    p = rec["prec"]
    prec_given, prec = False, 0
    if p == ".*":
        args.append(["int", "4"]); prec_given, prec, ptxt = True, 4, ".*"
    elif p:
        prec_given, prec, ptxt = True, int(p[1:]), p
    else:
        ptxt = ""
    d = {"conv": conv, "minus": int(minus), "plus": int(fl["plus"]), "space": int(fl["space"]), "hash": int(fl["hash"]), "zero": int(fl["zero"]),
         "width": width, "precGiven": int(prec_given), "prec": prec, "neg": 0, "digs": [48], "str": [], "pre": [60], "post": [62],
         "minus0": int(fl["minus"]), "starneg": starneg}
    defined = 1
    if conv in ("d", "i"):
        st, ut, bits = TYPES[ln]
        mx, mn = 2 ** (bits - 1) - 1, -2 ** (bits - 1)
        raw = [0, 1, -1, mx, mn][v % 5]
        if bits < 32:
            passed = [0, 1, -1, 300, -200][v % 5]     # the argument is an int; the directive converts it
            conv_v = ((passed + 2 ** (bits - 1)) % 2 ** bits) - 2 ** (bits - 1)
        else:
            passed = conv_v = raw
        args.append([st, str(passed)])
        d["neg"] = int(conv_v < 0); d["digs"] = codes(to_base(abs(conv_v), 10))
    elif conv in ("u", "o", "x", "X"):
        st, ut, bits = TYPES[ln]
        mx = 2 ** bits - 1
        passed = [0, 1, mx, 300, 8][v % 5] if bits >= 32 else [0, 1, 255, 300, 70000][v % 5]
        conv_v = passed % 2 ** bits
        args.append([ut, str(passed)])
        base = {"u": 10, "o": 8, "x": 16, "X": 16}[conv]
        d["digs"] = codes(to_base(conv_v, base, conv == "X"))
    elif conv == "s":
        s = STRS[v % 5]; args.append(["wstr" if ln == "l" else "str", s]); d["str"] = codes(s)     # %ls: the same text as wchar_t
    elif conv == "c":
        c = CHARS[v % 5]; args.append(["int", str(ord(c))]); d["str"] = codes(c)
    elif conv == "p":
        pv = [0x1234, 0xdeadbeef, 0x7fff12345678, 1, 0xffffffffffff][v % 5]
        args.append(["ptr", str(pv)]); d["digs"] = codes(to_base(pv, 16)); defined = 0
    fmt = "<%" + flags + wtxt + ptxt + ln + conv + ">"
    return {"fmt": fmt, "args": args, "defined": defined, "d": d}


FEATURE = {}


def key(rj, lines):
    try:
        ev = json.loads(rj["event"])
    except Exception:
        ev = {}
    if ev.get("e") == "Case":
        if rj["clause"].startswith("KnownDeviation_"):
            return "C19/printf/" + rj["clause"]
        return "C19/printf/%s/%s" % (rj["clause"], ev.get("fmt", "?"))
    if ev.get("e") == "Fmt":
        return "C19/fmt/%s/%s" % (rj["clause"], "".join(chr(c) for c in ev.get("fmt", []))[:40])
    if ev.get("e") == "Logger":
        return "C19/logger/%s/limit%s" % (rj["clause"], ev.get("limit"))
    return "C19/%s/%s" % (rj["clause"], ev.get("e", "?"))


def fmt_cases():
    out = []
    positions = ["", "0", "1", "2", "3", "7"]
    tails = ["", ":", ":0", ":5", ":05", ":x", ":08X", ":3b", ":o", ":d", ":i", ":q", ":5x5", "::", ":x:", "x"]
    for pos, tail in itertools.product(positions, tails):
        for x, y in ((0, 255), (4096, 7)):
            out.append({"fmt": "a{" + pos + tail + "}b", "x": x, "y": y, "s": "str"})
    # two and three fields: what one field's spec selects must not carry over to the next field
    for t1, t2 in itertools.product(tails, tails):
        for x, y in ((255, 255), (4096, 7)):
            out.append({"fmt": "{" + t1 + "}-{" + t2 + "}", "x": x, "y": y, "s": "str"})
    for t1, t2 in itertools.product([":x", ":08X", ":3b", ":o", ":05", ""], ["", ":d", ":5"]):
        out.append({"fmt": "{1" + t1 + "}{0" + t2 + "}{1}", "x": 171, "y": 205, "s": "str"})
        out.append({"fmt": "{" + t1 + "}{" + t2 + "}{}", "x": 171, "y": 205, "s": "str"})
    # every integer type fmt() has an overload for (values below 128 so that each type holds them)
    for t1, t2 in itertools.product(["", ":x", ":08X", ":5", ":o", ":3b"], ["", ":x", ":05"]):
        out.append({"fmt": "{" + t1 + "}|{" + t2 + "}|{}", "x": 100, "y": 27, "s": "z", "types": 1})
    for f in ["{{", "{", "{0", "}}", "{}{}{}{}", "{}{:x}{}", "no specs", "", "{{}}", "{1}{0}{1}", "{ 0}", "{0 }", "{:0}", "{:00005}", "tail {", "{2:x}"]:
        out.append({"fmt": f, "x": 10, "y": 200, "s": "s"})
    return out


def logger_cases():
    out = []
    for limit in (2, 3, 8, 128):
        lens = range(0, 3 * limit + 3) if limit < 128 else [0, 1, 126, 127, 128, 129, 253, 254, 255, 256, 381, 382, 383, 500]
        for n in lens:
            for pieces in (1, 3):
                out.append({"limit": limit, "pieces": pieces, "text": "".join(chr(97 + (i % 26)) for i in range(n))})
    return out


def run(ctx):
    ctx.level = "exploration"
    ctx.cov["rule"] = ("printf: the directive space flags x width (literal, *, negative *) x precision (literal, *) x length "
                       "modifier x conversion x boundary value, enumerated by TLC from Printf.tla (combinations ISO C leaves "
                       "undefined are not generated); each directive is rendered by the real printf_format + do_printf_*, by "
                       "glibc and by the TLA+ transcription of ISO C 7.21.6.1; fmt: the {}-grammar product; logger: message "
                       "lengths around multiples of the buffer size; a case is non-trivial if it has a flag, width or precision")
    binary, _ = build.build("printfh", ["printfh.cpp"], compiler="g++", std="c++20")
    r = ctx.model("Fmt", "MCPrintf", "MCPrintf_quick.cfg" if ctx.quick else "MCPrintf_thorough.cfg", workers=8, xmx="16g", timeout=7000)
    recs = list(tlc.printed_tuples(r, "H", budget=30000 if ctx.quick else 400000))
    cases = [make_case(rec) for rec in recs]
    if ctx.quick:
        # the quick directive space leaves out the rarer length modifiers; every modifier x integer conversion is still
        # rendered once per boundary value with a few flag/width/precision shapes (the thorough space has the full product)
        nofl = {"minus": False, "plus": False, "space": False, "hash": False, "zero": False, "quote": False}
        for ln in ("h", "z", "t", "j", "hh", "l", "ll", ""):
            for conv in ("d", "i", "u", "o", "x", "X"):
                for v in range(5):
                    # (widths and precisions with the digits 9 and 0 in both positions: a mutation-campaign survivor
                    # stopped the digit loop at '8')
                    for fl, w, pr in ((nofl, "", ""), (dict(nofl, minus=True), "9", ""), (dict(nofl, zero=True), "19", ""),
                                      (dict(nofl, hash=True), "", ".3"), (dict(nofl, plus=True), "*", ""),
                                      (nofl, "10", ".9"), (nofl, "90", ".19"), (dict(nofl, minus=True), "29", ".10")):
                        if fl["hash"] and conv not in ("o", "x", "X"):
                            continue      # ISO C leaves # undefined for d, i, u
                        cases.append(make_case({"flags": fl, "conv": conv, "len": ln, "val": v, "width": w, "prec": pr}))
        # %ls (wide strings): width, precision and justification as for %s
        for v in range(5):
            for fl, w, pr in ((nofl, "", ""), (nofl, "7", ""), (dict(nofl, minus=True), "7", ""), (nofl, "", ".3"), (dict(nofl, minus=True), "9", ".2"), (nofl, "*", ".*")):
                cases.append(make_case({"flags": fl, "conv": "s", "len": "l", "val": v, "width": w, "prec": pr}))
    for c in cases:
        if len(c["fmt"]) > 4:
            ctx.count_history([c["fmt"], c["args"]])
    ctx.sample({"directive": cases[len(cases) // 3]["fmt"], "args": cases[len(cases) // 3]["args"]})
    ctx.cov["directives_generated"] = r.emitted
    tp = os.path.join(ctx.work, "printf.trace")
    open(tp, "w").close()

    def add(mode, items):
        hp = os.path.join(ctx.work, "pf_%s.hist" % mode)
        core.write_ndjson(hp, items)
        part = tp + ".part"
        core.run_histories(binary, ["--mode", mode], hp, part, len(items))
        with open(tp, "a") as out:
            out.write(open(part).read())
        os.remove(part)

    add("printf", cases)
    fc = fmt_cases()
    for c in fc:
        ctx.count_history([c["fmt"], c["x"]])
    add("fmt", fc)
    lc = logger_cases()
    for c in lc:
        ctx.count_history([c["limit"], c["pieces"], len(c["text"])])
    add("logger", lc)
    v = ctx.validate("Fmt", "PrintfTrace", "PrintfTrace.cfg", tp, "printf/fmt/logger", keyfn=key)
    spec_bad = [rj for rj in v.rejects if rj["pid"] == "SPEC"]
    if spec_bad:
        raise core.Infra("PrintfOps.tla disagrees with glibc on %d directives (specification error, not a frigg violation), e.g. %s"
                         % (len(spec_bad), spec_bad[0]["event"][:300]))
    extra_stage(ctx, binary)


def extra_stage(ctx, binary):
    """Beyond the listed properties (NOTE only, spec/Fmt/ExtraTrace.tla): escape_fmt over every byte value and pairs of the
    special ones, to_allocated_string over radix / precision."""
    specials = [0, 9, 10, 34, 39, 92, 32, 65, 122, 48, 127, 128, 255, 31, 126]
    ex = [{"in": [b], "v": b, "radix": r, "prec": pr} for b in range(256) for r, pr in ((10, 1), (16, 4), (2, 0), (8, 12))][::3]
    ex += [{"in": [a, b], "v": a * 1000 + b, "radix": 10, "prec": 1} for a in specials for b in specials]
    ex += [{"in": [], "v": 0, "radix": 10, "prec": p0} for p0 in (0, 1, 3)]
    hp = os.path.join(ctx.work, "pf_extra.hist")
    core.write_ndjson(hp, ex)
    tp = os.path.join(ctx.work, "extra.trace")
    xbin, _ = build.build("extra", ["extra.cpp"], compiler="g++", flags=["-fno-sanitize=nonnull-attribute"])
    core.run_histories(xbin, [], hp, tp, len(ex), max_restarts=20)
    ctx.cov["beyond_the_list_cases"] = len(ex)
    ctx.validate("Fmt", "ExtraTrace", "ExtraTrace.cfg", tp, "beyond the list: escape_fmt, to_allocated_string (NOTE only)")

"""Inductive-invariant obligations discharged by Apalache (spec/Apalache/*.tla): Init => IndInv, IndInv /\\ Next => IndInv',
IndInv => Safety, plus a negative control (a deliberately broken Next must break the induction step).  These specs have
unbounded integer counters, so - unlike the TLC runs - they cover runs of any length for the stated constants.  They are
statements about the SPECIFICATION; the code is bound to it by the TLC-generated behaviours replayed on the real headers
and by trace validation, as everywhere else.  A failing obligation on the unchanged specification is an infrastructure
error (somebody edited the specification inconsistently), never a verdict about frigg."""
import os, shutil, subprocess
from lib import core


def discharge(ctx, module, cinit, obligations, negative, label):
    """obligations: [(init, inv, length)]; negative: (init, next, inv, length) that must FAIL."""
    if not shutil.which("apalache-mc"):
        ctx.notes.append("apalache-mc not installed: inductive-invariant stage of %s skipped" % module)
        return
    sd = os.path.join(core.VERIF, "spec", "Apalache")
    out = os.path.join(ctx.work, "apalache")

    def apa(init, inv, length, nxt="Next"):
        cmd = ["apalache-mc", "check", "--cinit=" + cinit, "--init=" + init, "--next=" + nxt, "--inv=" + inv,
               "--length=%d" % length, "--out-dir=" + out, module + ".tla"]
        try:
            p = subprocess.run(cmd, cwd=sd, stdout=subprocess.PIPE, stderr=subprocess.STDOUT, text=True, timeout=1500)
        except subprocess.TimeoutExpired:
            raise core.Infra("apalache-mc timed out on %s (%s => %s)" % (module, init, inv))
        if "EXITCODE: OK" in p.stdout:
            return True
        if "EXITCODE: ERROR (12)" in p.stdout:
            return False
        raise core.Infra("apalache-mc failed on %s: %s" % (module, p.stdout[-600:]))

    for init, inv, length in obligations:
        if not apa(init, inv, length):
            raise core.Infra("%s.tla: obligation %s =%d=> %s no longer holds (the specification was changed inconsistently)" % (module, init, length, inv))
    ninit, nnext, ninv, nlen = negative
    if apa(ninit, ninv, nlen, nxt=nnext):
        raise core.Infra("%s.tla: the negative control (%s) did not break the induction step - the invariant is vacuous" % (module, nnext))
    ctx.cov["stages"].append({"stage": "apalache inductive invariant: " + label, "module": module, "constants": cinit,
                              "obligations": ["%s =%d=> %s" % (o[0], o[2], o[1]) for o in obligations], "negative_control": nnext + " fired"})
    ctx.log("apalache: %s - %d obligations discharged, negative control fired" % (label, len(obligations)))
    shutil.rmtree(out, ignore_errors=True)

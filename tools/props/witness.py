"""ThreadSanitizer witnesses for the lock-free components (C10, C11, C12): free-running threads on the real headers
(harness/conc_tsan.cpp).  An observation channel beside the TLA+ models, not a replacement: the models decide the
property at atomic-access granularity for bounded scripts; the witness runs long unbounded workloads on real scheduling
and reports (a) a data race between the plain accesses that the component's release/acquire pairing is supposed to
order, (b) functional failures (lost key, torn value, two threads in a critical section, early grace period)."""
import os, re, subprocess
from lib import core, build

RUNS = {
    "C12": {"quick": [["spin", "ticket", "4", "30000"], ["spin", "simple", "4", "30000"], ["spin", "ticket", "2", "60000"], ["spin", "simple", "8", "10000"]],
            "thorough": [["spin", k, str(t), str(n)] for k in ("ticket", "simple") for t, n in ((2, 2000000), (3, 1000000), (4, 500000), (8, 100000))]},
    "C10": {"quick": [["radix", "3", "20000", "1"], ["radix", "2", "20000", "2"], ["radix", "6", "8000", "3"]],
            "thorough": [["radix", str(r), str(n), str(s)] for r, n in ((2, 400000), (3, 300000), (6, 200000), (8, 100000)) for s in (1, 2, 3)]},
    "C11": {"quick": [["qs", "3", "10000", "1"], ["qs", "1", "10000", "2"], ["qs", "6", "4000", "3"]],
            "thorough": [["qs", str(r), str(n), str(s)] for r, n in ((1, 400000), (2, 300000), (3, 300000), (6, 150000), (8, 50000)) for s in (1, 2, 3)]},
}


def tsan_witness(ctx):
    binary, _ = build.build("conc_tsan", ["conc_tsan.cpp"], sanitize="thread")
    runs = RUNS[ctx.pid]["quick" if ctx.quick else "thorough"]
    n = 0
    for args in runs:
        a = list(args)
        if a[0] != "spin":
            a[-1] = str(int(a[-1]) + ctx.seed - 1)
        e = dict(os.environ)
        e["TSAN_OPTIONS"] = "halt_on_error=1:exitcode=79:report_signal_unsafe=0"
        try:
            p = subprocess.run([binary] + a, stdout=subprocess.PIPE, stderr=subprocess.PIPE, text=True, env=e, timeout=600)
        except subprocess.TimeoutExpired:
            # wall-clock time is not evidence (a FIFO ticket lock with many spinning threads on a busy machine convoys for
            # minutes): a witness that does not finish is inconclusive, never a verdict - calls that do not return are decided by
            # the model (liveness under fairness) and by the cooperative scheduler's stall detection, which count steps, not seconds
            ctx.notes.append("TSan witness %s inconclusive: not finished within the time limit on this machine" % a)
            continue
        n += 1
        if p.returncode == 89:
            # the witness' own progress bound (a spin count) ran out: scheduling-dependent, inconclusive like a timeout
            ctx.notes.append("TSan witness %s inconclusive: its progress bound ran out on this machine" % a)
            continue
        if p.returncode != 0:
            full = p.stderr or ""
            what = full[:4000]
            if "data race" in what:
                kind = "data-race"
            elif "FUNCTIONAL" in what:
                kind = "functional"
            elif "PANIC" in what:
                kind = "panic"
            else:
                kind = "crash"
            m = re.search(r"FUNCTIONAL ([^\n]*)", full) or re.search(r"SUMMARY: ThreadSanitizer: data race [^ ]* in ([^\n]*)", full)
            where = re.sub(r"[^A-Za-z0-9_]+", "_", m.group(1))[:60] if m else "?"
            ctx.report("%s/tsan/%s/%s/%s" % (ctx.pid, kind, a[0] + ("_" + a[1] if a[0] == "spin" else ""), where),
                       "ThreadSanitizer witness %s (free-running threads on the real header): %s" % (a, what[:500]), artefact_text=what)
            break
    ctx.cov["tsan_witness_runs"] = n
    ctx.cov["stages"].append({"stage": "tsan witness", "runs": n, "args": runs[:n]})

"""C06: red-black tree - order, balance and neighbour links after any insert/remove."""
import os, json
from lib import core, tlc, build

KEYS = {6: [1, 1, 2, 3, 3, 4], 7: [1, 1, 2, 3, 3, 4, 5], 8: [1, 1, 2, 3, 3, 4, 5, 5]}


def key_for(pid):
    def key(rj, lines):
        try:
            ev = json.loads(rj["event"])
        except Exception:
            ev = {}
        return "%s/%s/%s" % (rj["pid"], rj["clause"], ev.get("op", ev.get("e", "?")))
    return key


def tour(ctx, binary, cfgname, variant, lo, hi, budget, label, extra=None, pid="C06"):
    r = ctx.model("RBTree", "MCRBTree", cfgname, workers=16, xmx="16g", timeout=6000)
    hists = list(tlc.printed_tuples(r, "H"))
    if not hists:
        raise core.Infra("no behaviours emitted by " + cfgname)
    step = max(1, len(hists) // budget)
    sel = hists[::step]
    for h in sel:
        ctx.count_history([variant] + h)
    ctx.sample({"variant": variant, "keys": lo, "history": sel[len(sel) // 2]})
    hp = os.path.join(ctx.work, label + ".hist")
    core.write_ndjson(hp, sel)
    tp = os.path.join(ctx.work, label + ".trace")
    args = ["--variant", variant, "--lo", ",".join(map(str, lo)), "--hi", ",".join(map(str, hi)), "--lastonly"] + (extra or [])
    core.run_histories(binary, args, hp, tp, len(sel))
    ctx.cov.setdefault("tours", []).append({"config": cfgname, "transitions": len(hists), "replayed": len(sel)})
    ctx.validate("RBTree", "RBTreeTrace", "RBTreeTrace.cfg", tp, label, keyfn=key_for(pid), env={"OWN": ctx.pid})


def run(ctx):
    ctx.cov["rule"] = ("one history per transition of the RBTreeImpl state graph (every reachable tree shape x every "
                       "insert/remove), sampled evenly when above the replay budget; the real tree's full structure is "
                       "logged after the last call of each history (earlier calls are the last call of another history); "
                       "plus random histories up to 300 nodes with the structure checked after every call; "
                       "non-trivial = >= 2 calls")
    binary, _ = build.build("rbtree", ["rbtree.cpp"])
    budget = 30000 if ctx.quick else 400000
    n = 6 if ctx.quick else 7
    tour(ctx, binary, "MCRB_less%d.cfg" % n, "less", KEYS[n], KEYS[n], budget, "rb_less")
    m = 5 if ctx.quick else 6
    tour(ctx, binary, "MCRB_order%d.cfg" % m, "order", KEYS[6][:m] if m < 6 else KEYS[6], KEYS[6][:m] if m < 6 else KEYS[6], budget, "rb_order")
    if not ctx.quick:
        # the 8-element graph is model-checked (design level) without replay
        ctx.model("RBTree", "MCRBTree", "MCRB_less8_nomc.cfg", workers=16, xmx="24g", timeout=7000)
    # random long histories, both variants
    plans = [("less", 12, 250, 60), ("order", 12, 250, 60), ("less", 4, 700, 300)] if ctx.quick else \
            [("less", 150, 400, 80), ("order", 150, 400, 80), ("less", 30, 1500, 300), ("order", 30, 1500, 300)]
    tp = os.path.join(ctx.work, "rb_rnd.trace")
    open(tp, "w").close()
    for i, (variant, cnt, ln, nn) in enumerate(plans):
        part = tp + ".%d" % i
        open(part + ".in", "w").close()
        core.run_histories(binary, ["--variant", variant, "--random", str(cnt), "--len", str(ln), "--n", str(nn),
                                    "--seed", str(ctx.seed + i), "--keyspace", str(max(6, nn // 3))], part + ".in", part, cnt)
        with open(tp, "a") as out:
            out.write(open(part).read())
    ctx.validate("RBTree", "RBTreeTrace", "RBTreeTrace.cfg", tp, "rb random", keyfn=key_for("C06"), env={"OWN": ctx.pid})

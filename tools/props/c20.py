"""C20: parsers are memory-safe and total on arbitrary input."""
import os, json, random
from lib import core, tlc, build

SPEC_DIRS = [os.path.join(core.VERIF, "spec", d) for d in ("Fmt", "Str")]


def predict_args(b):
    """Reference reading of a printf format (frigg's documented grammar): which variadic arguments the
    directives consume, so that the harness can supply arguments of exactly those types.
    Returns (args, positional)."""
    s = bytes(b).decode("latin1")
    i, n = 0, len(s)
    args, positional = [], False
    while i < n:
        if s[i] != "%":
            i += 1; continue
        i += 1
        if i >= n:
            break                                   # the library asserts here
        if s[i] == "%":
            i += 1; continue
        while i < n:                                # flags and n$
            if s[i].isdigit() and s[i] != "0" and i + 1 < n and s[i + 1] == "$":
                positional = True; i += 2
            elif s[i] == "0" and i + 1 < n and s[i + 1] == "$":
                positional = True; i += 2
            elif s[i] in "-+ #0'":
                i += 1
            else:
                break
        if i < n and s[i] == "*":
            args.append(["int", "3"]); i += 1
        else:
            while i < n and s[i].isdigit():
                i += 1
        if i < n and s[i] == ".":
            i += 1
            if i < n and s[i] == "*":
                args.append(["int", "2"]); i += 1
            else:
                while i < n and s[i].isdigit():
                    i += 1
        ln = ""
        if i < n and s[i] == "l":
            i += 1; ln = "l"
            if i < n and s[i] == "l":
                i += 1; ln = "ll"
        elif i < n and s[i] in "ztjL":
            ln = s[i]; i += 1
        elif i < n and s[i] == "h":
            i += 1; ln = "h"
            if i < n and s[i] == "h":
                i += 1; ln = "hh"
        if i >= n:
            break
        c = s[i]; i += 1
        if c in "di":
            args.append([{"": "int", "hh": "int", "h": "int", "l": "long", "ll": "llong"}.get(ln, "long"), "-7"])
        elif c in "uoxXbB":
            args.append([{"": "uint", "hh": "uint", "h": "uint", "l": "ulong", "ll": "ullong"}.get(ln, "ulong"), "9"])
        elif c == "c":
            args.append(["int", "65"])
        elif c == "s":
            args.append(["wstr", ""] if ln == "l" else ["str", "st"])
        elif c == "p":
            args.append(["ptr", "4660"])
        else:
            pass                                    # unknown conversion: the harness agent ignores it, no argument is consumed
    return args, positional


def key(rj, lines):
    try:
        ev = json.loads(rj["event"])
    except Exception:
        ev = {}
    parser = ev.get("parser", "?")
    feat = ""
    if ev.get("e") in ("crash", "hang"):
        # the parser is named by the Reset line of the execution; the kind of report identifies the finding
        a, _ = rj["exec_lines"]
        try:
            parser = json.loads(lines[a - 1]).get("mode", "?")
        except Exception:
            pass
        w = ev.get("what", "")
        feat = "/" + ("signed-overflow" if "signed integer overflow" in w else "asan" if "AddressSanitizer" in w else "hang" if ev.get("e") == "hang" else "other")
    return "C20/%s/%s%s" % (parser, rj["clause"], feat)


def run(ctx):
    ctx.level = "exploration"
    ctx.cov["rule"] = ("every byte string up to a bounded length over the reduced alphabet of each parser, enumerated by TLC "
                       "from ParserInputs.tla (printf: strings containing %; fmt: { } : 0 9 x a; command line: a = \" space 1 "
                       "with two option tables; to_number: digits, sign, letter, four integer types), plus grammar-generated "
                       "longer inputs with very long digit runs; each input lives in an exact-size heap buffer, the harness is "
                       "built with ASan+UBSan, variadic fetches are counted; non-trivial = length >= 2")
    binary, _ = build.build("printfh", ["printfh.cpp"], compiler="g++", std="c++20")
    rng = random.Random(ctx.seed)
    tp = os.path.join(ctx.work, "parse.trace")
    open(tp, "w").close()
    old = tlc.COMMON
    q = ctx.quick

    def inputs(cfgname, budget):
        r = ctx.model("Parse", "ParserInputs", cfgname, workers=8, xmx="8g", timeout=6000)
        return [x["in"] for x in tlc.printed_tuples(r, "H", budget=budget)]

    def add(mode, items):
        hp = os.path.join(ctx.work, "parse_%s.hist" % mode)
        core.write_ndjson(hp, items)
        part = tp + ".part"
        core.run_histories(binary, ["--mode", mode], hp, part, len(items))
        with open(tp, "a") as out:
            out.write(open(part).read())
        os.remove(part)
        for it in items:
            if len(it["in"]) >= 2:
                ctx.count_history([mode, it["in"], it.get("table", 0)])

    digits = [48 + rng.randrange(10) for _ in range(40)]
    # printf
    pf = inputs("PI_printf_q.cfg" if q else "PI_printf_t.cfg", 40000 if q else 400000)
    # the rarer length modifiers, flags and conversions (z t j L + # blank ' u i o X p): every string up to length 3, so that
    # a format ending right after each of them is an input (a mutation-campaign survivor had removed the assertion after 'j')
    pf += inputs("PI_printf_mods.cfg", 5000)
    longs = [[37] + digits + [100], [37, 46] + digits + [100], [37, 45, 48] + digits[:12] + [46] + digits[:12] + [108, 108, 120],
             [37] + digits[:10] + [36, 100], [37, 42, 46, 42, 108, 100, 37, 115, 37, 37, 37], [37] * 7]
    items = []
    for b in pf + longs:
        args, positional = predict_args(b)
        if len(args) > 3:
            continue
        items.append({"in": b, "args": args, "positional": int(positional)})
    ctx.sample({"parser": "printf", "input": "".join(chr(c) for c in items[len(items) // 2]["in"]), "args": items[len(items) // 2]["args"]})
    add("pf_fuzz", items)
    # fmt
    fm = inputs("PI_fmt_q.cfg" if q else "PI_fmt_t.cfg", 40000 if q else 400000)
    fm += [[123] + digits + [125], [123, 58] + digits + [125], [123, 58, 48] + digits[:9] + [120, 125], [123] * 30, [125] * 30]
    add("fmt_fuzz", [{"in": b} for b in fm])
    # command line, two option tables
    cm = inputs("PI_cmd_q.cfg" if q else "PI_cmd_t.cfg", 30000 if q else 300000)
    cm += [[34], [97, 34, 97], [34, 97, 32, 97], [49, 61] + digits, [97, 97, 61, 34, 97, 32, 97, 34, 32, 97]]
    add("cmdline", [{"in": b, "table": t} for b in cm for t in (0, 1)])
    # to_number
    nm = inputs("PI_num_q.cfg" if q else "PI_num_t.cfg", 20000 if q else 200000)
    nm += [digits, digits[:10], digits[:19], digits[:20], [50, 49, 52, 55, 52, 56, 51, 54, 52, 55], [50, 49, 52, 55, 52, 56, 51, 54, 52, 56],
           [52, 50, 57, 52, 57, 54, 55, 50, 57, 53], [52, 50, 57, 52, 57, 54, 55, 50, 57, 54],
           [57, 50, 50, 51, 51, 55, 50, 48, 51, 54, 56, 53, 52, 55, 55, 53, 56, 48, 55], [57, 50, 50, 51, 51, 55, 50, 48, 51, 54, 56, 53, 52, 55, 55, 53, 56, 48, 56],
           [49, 56, 52, 52, 54, 55, 52, 52, 48, 55, 51, 55, 48, 57, 53, 53, 49, 54, 49, 53], [49, 56, 52, 52, 54, 55, 52, 52, 48, 55, 51, 55, 48, 57, 53, 53, 49, 54, 49, 54]]
    add("tonumber", [{"in": b} for b in nm])
    tlc.COMMON = old + os.pathsep + os.pathsep.join(SPEC_DIRS)
    try:
        ctx.validate("Parse", "ParseTrace", "ParseTrace.cfg", tp, "parsers", keyfn=key)
    finally:
        tlc.COMMON = old

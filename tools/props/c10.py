"""C10: radix tree - lock-free readers never see partial state or lose present keys."""
import os, json, re
from lib import core, tlc, build

SPEC = os.path.join(core.VERIF, "spec", "Radix")
SITES = [l.strip() for l in open(os.path.join(SPEC, "conc_sites.txt")) if l.strip()]

SCEN = {
    "A": {"script": [["ins", [0, 0, 0]], ["ins", [0, 0, 1]], ["ins", [0, 1, 0]], ["ins", [1, 0, 0]], ["ins", [2, 0, 0]],
                     ["erase", [0, 0, 1]], ["ins", [0, 0, 1]]],
          "rkeys": [[[0, 0, 1], [0, 1, 0]], [[0, 0, 0], [2, 0, 0]]]},
    "B": {"script": [["ins", [0, 0, 0]], ["ins", [1, 0, 0]], ["ins", [0, 1, 1]], ["ins", [0, 1, 2]], ["erase", [0, 0, 0]],
                     ["ins", [0, 1, 1]]],
          "rkeys": [[[0, 0, 0], [0, 1, 1]], [[0, 1, 2], [0, 0, 0]]]},
    "C": {"script": [["ins", [0, 0, 0]], ["ins", [0, 1, 0]], ["erase", [0, 0, 0]]],
          "rkeys": [[[0, 0, 0]], [[0, 1, 0]], [[0, 0, 0]]]},
}
READERS = {"A": "{1,2}", "B": "{1,2}", "C": "{1,2,3}"}


def key(rj, lines):
    return "C10/%s" % rj["clause"]


def extract_sites(trace_path):
    seen = {}
    with open(trace_path) as f:
        for ln in f:
            if not ln.startswith('{"e":"A"'):
                continue
            ev = json.loads(ln)
            if "fn" not in ev or "vc" not in ev:
                continue
            seen.setdefault((ev["fn"], ev["vc"], ev["k"]), {}).setdefault(ev["line"], set()).add(ev["mo"])
    return seen


def mo_table(seen):
    table, drift = {}, None
    by_key = {}
    for s in SITES:
        parts = s.split(".")
        by_key.setdefault((".".join(parts[:-3]), parts[-3], parts[-2]), []).append((int(parts[-1]), s))
    for k in seen:
        if k not in by_key:
            drift = drift or "access site %s.%s.%s is not in the model" % k
    for k, ranks in by_key.items():
        lines = seen.get(k, {})
        if len(lines) != len(ranks):
            drift = drift or "site group %s.%s.%s: model has %d sites, traces show %d" % (k + (len(ranks), len(lines)))
            continue
        for (rank, s), line in zip(sorted(ranks), sorted(lines)):
            if len(lines[line]) != 1:
                drift = drift or "site %s used with several orders" % s
            table[s] = sorted(lines[line])[0]
    return table, drift


def write_mo(ctx, table):
    body = " @@\n   ".join('("%s" :> "%s")' % (s, table[s]) for s in SITES)
    with open(os.path.join(ctx.work, "RadixMOGen.tla"), "w") as f:
        f.write("---- MODULE RadixMOGen ----\nEXTENDS MCRadixConc\nMOgen ==\n   %s\n====\n" % body)


def cfg(ctx, name, scen, tour):
    p = os.path.join(ctx.work, name)
    with open(p, "w") as f:
        f.write("CONSTANTS\n  L = 3\n  Digits = {0,1,2}\n  NL = 16\n  MaxNodes = 8\n  Script <- Script%s\n  Readers = %s\n"
                "  RKeys <- RKeys%s\n  MO <- MOgen\nINIT MCInit\nNEXT MCNext\nVIEW MCView\n"
                "INVARIANTS TypeOK NoViolation LinksSane FinalMapExact\nCHECK_DEADLOCK FALSE\n" % (scen, READERS[scen], scen))
        if tour:
            f.write("ACTION_CONSTRAINT Emit\n")
    return p


def model(ctx, cfgpath, **kw):
    old = tlc.COMMON
    tlc.COMMON = old + os.pathsep + SPEC
    try:
        return ctx.model(os.path.relpath(ctx.work, os.path.join(core.VERIF, "spec")), "RadixMOGen", cfgpath, **kw)
    finally:
        tlc.COMMON = old


def run(ctx):
    ctx.cov["rule"] = ("schedules: transitions of the explored RadixConc graph for three writer/reader scenarios "
                       "(sampled evenly), replayed under several digit->nibble embeddings, plus random schedules of "
                       "random scripts; a schedule is the thread id per step; non-trivial = >= 2 steps")
    binary, _ = build.build("radixconc", ["radixconc.cpp"])
    # (1) random scripts under random schedules
    tp = os.path.join(ctx.work, "rc_rnd.trace")
    open(tp + ".in", "w").close()
    n = 300 if ctx.quick else 4000
    core.run_histories(binary, ["--random", str(n), "--seed", str(ctx.seed), "--readers", "3", "--wlen", "14", "--rlen", "9",
                                "--nkeys", "6"], tp + ".in", tp, n)
    ctx.validate("Radix", "RadixConcTrace", "RadixConcTrace.cfg", tp, "radixconc random", keyfn=key)
    # (2) code's orders -> model
    table, drift = mo_table(extract_sites(tp))
    ctx.cov["memory_orders"] = table
    if drift:
        print("MODEL-DRIFT component=radixconc first-divergence=%s (RadixConc not re-instantiated; trace-level checks still apply)" % drift)
        ctx.notes.append("MODEL-DRIFT radixconc: " + drift)
        return
    write_mo(ctx, table)
    tours = {}
    for scen in ("A", "B", "C"):
        r = model(ctx, cfg(ctx, "rc_%s.cfg" % scen, scen, True), must_hold=False, workers=16, xmx="16g")
        if r.violation:
            ctx.report("C10/model/%s" % r.violated_name, "TLC: %s in RadixConc scenario %s instantiated with the code's "
                       "memory orders %s" % (r.violation, scen, table), artefact_text=r.out[-12000:])
        else:
            tours[scen] = list(tlc.printed_tuples(r, "H"))
    # (3) negative controls
    for site, badmo in (("find_or_insert.link.store.4", "rlx"), ("find.link.load.0", "rlx"), ("find_or_insert.mask.store.2", "rlx")):
        bad = dict(table); bad[site] = badmo
        write_mo(ctx, bad)
        model(ctx, cfg(ctx, "rc_neg.cfg", "B" if site.endswith("link.store.4") else "A", False),
              expect_violation="NoViolation", workers=8, xmx="8g")
    write_mo(ctx, table)
    # (4) replay sampled schedules under several embeddings (each digit at several nibble positions)
    positions = ["0,7,15", "12,13,15", "0,1,15"] if ctx.quick else ["0,7,15", "12,13,15", "0,1,15", "3,9,15", "6,14,15", "0,14,15"]
    budget = 6000 if ctx.quick else 60000
    tp_all = os.path.join(ctx.work, "rc_tour.trace")
    open(tp_all, "w").close()
    total = 0
    for scen, hists in tours.items():
        step = max(1, len(hists) * len(positions) // budget)
        for pi, pos in enumerate(positions):
            sel = hists[pi % step::step]
            for h in sel:
                ctx.count_history([scen] + h)
            hp = os.path.join(ctx.work, "rc_%s_%d.hist" % (scen, pi))
            core.write_ndjson(hp, sel)
            tpp = os.path.join(ctx.work, "rc_%s_%d.trace" % (scen, pi))
            core.run_histories(binary, ["--script", json.dumps(SCEN[scen]["script"]), "--rkeys", json.dumps(SCEN[scen]["rkeys"]),
                                        "--pos", pos], hp, tpp, len(sel))
            with open(tp_all, "a") as out:
                out.write(open(tpp).read())
            total += len(sel)
            os.remove(tpp); os.remove(hp)
        ctx.sample({"scenario": scen, "script": SCEN[scen]["script"], "schedule": hists[len(hists) // 2]})
    ctx.cov["tour_histories_total"] = sum(len(h) for h in tours.values())
    ctx.cov["tour_histories_replayed"] = total
    ctx.validate("Radix", "RadixConcTrace", "RadixConcTrace.cfg", tp_all, "radixconc TLC schedules", keyfn=key)
    from props import witness
    witness.tsan_witness(ctx)

"""C02: slab pool (shared pipeline, see slab_common.py and spec/Slab)."""
from props.slab_common import run_slab


def run(ctx):
    run_slab(ctx)

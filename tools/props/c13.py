"""C13: sequence containers equal their abstract sequence after any operation sequence."""
import os, json
from lib import core, tlc, build

KINDS = ["vector", "small_vector", "dyn_array", "stack", "list", "ilist"]


def key(rj, lines):
    try:
        ev = json.loads(rj["event"])
    except Exception:
        ev = {}
    kind = "?"
    a, _ = rj["exec_lines"]
    try:
        kind = json.loads(lines[a - 1]).get("kind", "?")
    except Exception:
        pass
    name = ev.get("name", ev.get("e", "?"))
    # a crash right after the marker of a resize / rvalue push whose argument is an element of the container itself
    ln = rj["line"]
    if ev.get("e") == "crash" and ln >= 2 and lines[ln - 2].startswith('{"e":"AliasArg"'):
        name = "crash/argument_refers_to_own_element_in_resize_or_rvalue_push"
    return "C13/%s/%s/%s" % (kind, rj["clause"], name)


def run(ctx):
    ctx.cov["rule"] = ("per container kind: one history per transition of the SeqContainers graph (two container "
                       "variables, all operations incl. copy/move/assign/swap between them, lengths crossing the growth "
                       "thresholds), sampled evenly above the budget, replayed with int and with Tracked elements under "
                       "ASan; plus random histories to length 5000; non-trivial = >= 2 operations")
    binary, _ = build.build("containers", ["containers.cpp"])
    budget = 12000 if ctx.quick else 200000
    tp = os.path.join(ctx.work, "seq_tour.trace")
    open(tp, "w").close()
    for kind in KINDS:
        r = ctx.model("Seq", "MCSeq", "MCSeq_%s.cfg" % kind, workers=8, xmx="8g")
        sel = list(tlc.printed_tuples(r, "H", budget=budget))
        for h in sel:
            ctx.count_history([kind] + h)
        ctx.sample({"kind": kind, "history": sel[len(sel) // 2]})
        hp = os.path.join(ctx.work, "seq_%s.hist" % kind)
        core.write_ndjson(hp, sel)
        variants = [(kind, [])] if kind == "ilist" else [(kind, []), (kind, ["--tracked"])]
        if kind == "small_vector":
            variants.append(("small_vector1", []))
        for vk, extra in variants:
            part = tp + ".part"
            core.run_histories(binary, ["--kind", vk, "--lastonly"] + extra, hp, part, len(sel))
            with open(tp, "a") as out:
                out.write(open(part).read())
            os.remove(part)
        ctx.cov.setdefault("tours", []).append({"kind": kind, "transitions": r.emitted, "replayed": len(sel)})
    ctx.validate("Seq", "SeqTrace", "SeqTrace.cfg", tp, "container tours", keyfn=key)
    tp2 = os.path.join(ctx.work, "seq_rnd.trace")
    open(tp2, "w").close()
    for i, kind in enumerate(KINDS + ["small_vector1"]):
        for extra in ([], ["--tracked"]):
            if kind == "ilist" and extra:
                continue
            part = tp2 + ".part"
            open(part + ".in", "w").close()
            cnt, ln, ml = (4, 300, 40) if ctx.quick else (40, 1500, 300)
            core.run_histories(binary, ["--kind", kind, "--random", str(cnt), "--len", str(ln), "--maxlen", str(ml),
                                        "--seed", str(ctx.seed + i)] + extra, part + ".in", part, cnt)
            with open(tp2, "a") as out:
                out.write(open(part).read())
            os.remove(part)
    # probe histories for the listed known finding (int elements; capacity 2 / inline capacity reached, then the call grows)
    probes = [[{"name": "push", "d": 1, "x": 1, "y": 0}, {"name": "push", "d": 1, "x": 2, "y": 0}, {"name": nm, "d": 1, "x": 0, "y": 0}]
              for nm in ("resize_alias", "push_move_alias")]
    hp = os.path.join(ctx.work, "seq_probe.hist")
    core.write_ndjson(hp, probes)
    for kind in ("vector", "small_vector1"):
        part = tp2 + ".part"
        core.run_histories(binary, ["--kind", kind], hp, part, len(probes))
        with open(tp2, "a") as out:
            out.write(open(part).read())
        os.remove(part)
    ctx.validate("Seq", "SeqTrace", "SeqTrace.cfg", tp2, "container random histories", keyfn=key)

"""C07: interval tree - overlap queries are exact after any insert/remove history."""
import os
from lib import core, tlc, build
from props.c06 import tour, key_for

IV = {6: ([0, 0, 1, 1, 2, 3], [3, 1, 1, 2, 2, 3]), 7: ([0, 0, 1, 1, 2, 3, 0], [3, 1, 1, 2, 2, 3, 0])}


def run(ctx):
    ctx.cov["rule"] = ("one history per transition of the RBTreeImpl graph over an interval multiset with endpoints 0..3 "
                       "(points, nested, touching, duplicate lower bounds); after the last call every query [lb,ub], "
                       "0 <= lb <= ub <= 4, and the one-argument form are run on the real tree and their callback "
                       "sequences logged; plus random interval sets with random queries after every call; "
                       "non-trivial = >= 2 calls")
    binary, _ = build.build("rbtree", ["rbtree.cpp"])
    # (the 7-interval graph with one emitted history per transition exhausts 16 GB of TLC heap after 20 minutes; the
    # thorough tier therefore replays ALL transitions of the 6-interval graph instead of a sample and deepens the random part)
    n = 6
    lo, hi = IV[n]
    tour(ctx, binary, "MCIV_%d.cfg" % n, "iv", lo, hi, 20000 if ctx.quick else 300000, "iv_tour",
         extra=["--qmin", "0", "--qmax", "4"], pid="C07")
    plans = [(15, 200, 40, 12), (4, 500, 200, 1000)] if ctx.quick else [(200, 400, 60, 12), (40, 1500, 200, 1000), (40, 800, 100, 30)]
    tp = os.path.join(ctx.work, "iv_rnd.trace")
    open(tp, "w").close()
    for i, (cnt, ln, nn, ksp) in enumerate(plans):
        part = tp + ".%d" % i
        open(part + ".in", "w").close()
        core.run_histories(binary, ["--variant", "iv", "--random", str(cnt), "--len", str(ln), "--n", str(nn), "--seed",
                                    str(ctx.seed + i), "--keyspace", str(ksp), "--queries", "10"], part + ".in", part, cnt)
        with open(tp, "a") as out:
            out.write(open(part).read())
    ctx.validate("RBTree", "RBTreeTrace", "RBTreeTrace.cfg", tp, "iv random", keyfn=key_for("C07"), env={"OWN": ctx.pid})

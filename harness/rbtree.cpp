// Harness for C06 / C07: the real frg::rbtree, frg::rbtree_order and frg::interval_tree.
// Replays insert/remove histories and records the complete structure read back through the
// tree's own accessors (and, for the interval tree, the callbacks of every query).
#include "common/trace.hpp"
#define private public
#include <frg/rbtree.hpp>
#include <frg/interval_tree.hpp>
#undef private
#include <memory>

using namespace vt;

struct Node {
	int id = 0;
	long lo = 0, hi = 0;
	frg::rbtree_hook hook;
	frg::interval_hook<long> ih;
};
struct Less { bool operator()(const Node &a, const Node &b) const { return a.lo < b.lo; } };
using LessTree = frg::rbtree<Node, &Node::hook, Less>;
using OrderTree = frg::rbtree_order<Node, &Node::hook>;
using IvTree = frg::interval_tree<Node, long, &Node::lo, &Node::hi, &Node::hook, &Node::ih>;

struct Op { std::string op; int e, b; };

static int id_of(Node *n) { return n ? n->id : 0; }

template<class Tree>
static void shape(Ev &ev, Tree &tree, std::vector<std::unique_ptr<Node>> &nodes, bool with_max) {
	int n = (int)nodes.size() - 1;
	std::vector<long long> left(n), right(n), parent(n), pred(n), succ(n), color(n), mx(n);
	for(int e = 1; e <= n; e++) {
		Node *x = nodes[e].get();
		left[e - 1] = id_of(Tree::get_left(x)); right[e - 1] = id_of(Tree::get_right(x));
		parent[e - 1] = id_of(Tree::get_parent(x));
		pred[e - 1] = id_of(Tree::predecessor(x)); succ[e - 1] = id_of(Tree::successor(x));
		color[e - 1] = (long long)x->hook.color;   // 0 null, 1 red, 2 black
		mx[e - 1] = x->ih.subtree_max;
	}
	ev.i("root", id_of(tree.get_root())).i("first", id_of(tree.first()));
	ev.raw("left", jarr(left)).raw("right", jarr(right)).raw("parent", jarr(parent)).raw("pred", jarr(pred)).raw("succ", jarr(succ)).raw("color", jarr(color));
	if(with_max) ev.raw("max", jarr(mx));
}

struct Config { std::string variant; std::vector<long> lo, hi; bool lastonly = false; long qmin = 0, qmax = 4; int nrandq = 0; };

template<class Tree, class Ins, class Rem>
static void run_hist(const Config &c, const std::vector<Op> &h, Tree &tree, Ins ins, Rem rem, IvTree *iv, Rng *rng) {
	int n = (int)c.lo.size();
	std::vector<std::unique_ptr<Node>> nodes(n + 1);
	for(int e = 1; e <= n; e++) { nodes[e] = std::make_unique<Node>(); nodes[e]->id = e; nodes[e]->lo = c.lo[e - 1]; nodes[e]->hi = c.hi[e - 1]; nodes[e]->ih.subtree_max = -7; }
	{
		std::vector<long long> lo(c.lo.begin(), c.lo.end()), hi(c.hi.begin(), c.hi.end());
		Ev("Reset").str("variant", c.variant).i("n", n).raw("lo", jarr(lo)).raw("hi", jarr(hi)).emit();
	}
	try {
		for(size_t i = 0; i < h.size(); i++) {
			const Op &o = h[i];
			Ev ev("Op");
			ev.str("op", o.op).i("x", o.e).i("b", o.b);
			if(o.op == "rem") rem(nodes[o.e].get()); else ins(nodes[o.e].get(), o.b ? nodes[o.b].get() : nullptr);
			bool chk = !c.lastonly || i + 1 == h.size();
			ev.i("chk", chk ? 1 : 0);
			if(chk) {
				shape(ev, tree, nodes, iv != nullptr);
				if(iv) {
					std::string q = "[";
					bool firstq = true;
					auto one = [&](long lb, long ub) {
						std::vector<long long> calls;
						iv->for_overlaps([&](Node *x) { calls.push_back(x->id); }, lb, ub);
						if(!firstq) q += ",";
						firstq = false;
						q += "[" + std::to_string(lb) + "," + std::to_string(ub) + "," + jarr(calls) + "]";
					};
					if(c.nrandq == 0) { for(long lb = c.qmin; lb <= c.qmax; lb++) for(long ub = lb; ub <= c.qmax; ub++) one(lb, ub); }
					else for(int k = 0; k < c.nrandq; k++) { long a = rng->below(c.qmax + 2), b = rng->below(c.qmax + 2); if(a > b) std::swap(a, b); one(a, b); }
					// the one-argument form is the case lb = ub
					{
						std::vector<long long> calls; long pt = rng ? (long)rng->below(c.qmax + 1) : (long)(i % (c.qmax + 1));
						iv->for_overlaps([&](Node *x) { calls.push_back(x->id); }, pt);
						q += ",[" + std::to_string(pt) + "," + std::to_string(pt) + "," + jarr(calls) + "]";
					}
					ev.raw("q", q + "]");
				}
			}
			ev.emit();
		}
	} catch(Panic &) {}
	// nodes and tree are dropped without further library calls (hook has no destructor checks)
}

static void dispatch(const Config &c, const std::vector<Op> &h, Rng *rng) {
	if(c.variant == "less") {
		LessTree t;
		run_hist(c, h, t, [&](Node *x, Node *) { t.insert(x); }, [&](Node *x) { t.remove(x); }, nullptr, rng);
	} else if(c.variant == "order") {
		OrderTree t;
		run_hist(c, h, t, [&](Node *x, Node *b) { t.insert(b, x); }, [&](Node *x) { t.remove(x); }, nullptr, rng);
	} else {
		IvTree t;
		run_hist(c, h, t._rbtree, [&](Node *x, Node *) { t.insert(x); }, [&](Node *x) { t.remove(x); }, &t, rng);
	}
}

static std::vector<long> parse_list(const std::string &s) {
	std::vector<long> v; size_t p = 0;
	while(p < s.size()) { size_t e = s.find(',', p); if(e == std::string::npos) e = s.size(); v.push_back(atol(s.substr(p, e - p).c_str())); p = e + 1; }
	return v;
}

int main(int argc, char **argv) {
	Args a(argc, argv);
	install_terminate();
	Config c;
	c.variant = a.str("variant", "less");
	c.lastonly = a.has("lastonly");
	long long from = a.num("from", 0);
	if(a.has("random")) {
		long long cnt = a.num("random", 10), len = a.num("len", 200);
		int n = a.num("n", 60); long keyspace = a.num("keyspace", 20);
		c.nrandq = a.num("queries", 12);
		c.qmax = keyspace;
		for(long long i = 0; i < cnt; i++) {
			Rng rng(a.num("seed", 1) * 6151 + i);
			c.lo.clear(); c.hi.clear();
			for(int e = 0; e < n; e++) { long lo = rng.below(keyspace); long hi = c.variant == "iv" ? lo + (rng.coin(30) ? 0 : (long)rng.below(keyspace - lo + 1)) : lo; c.lo.push_back(lo); c.hi.push_back(hi); }
			std::vector<bool> in(n + 1, false); std::vector<int> members;
			std::vector<Op> h;
			int mode = rng.below(3);   // 0 mixed, 1 ascending fill then drain, 2 grow-shrink waves
			for(long long s = 0; s < len; s++) {
				bool grow = members.empty() || (mode == 2 ? ((s / (n / 2 + 1)) % 2 == 0) : rng.coin(mode == 1 ? 70 : 55));
				if(grow && (int)members.size() < n) {
					int e; do { e = rng.below(n) + 1; } while(in[e]);
					int b = 0;
					if(c.variant == "order" && !members.empty() && rng.coin(70)) b = members[rng.below(members.size())];
					h.push_back({c.variant == "order" ? "insb" : "ins", e, b}); in[e] = true; members.push_back(e);
				} else if(!members.empty()) {
					size_t k = rng.below(members.size()); int e = members[k];
					members.erase(members.begin() + k); in[e] = false;
					h.push_back({"rem", e, 0});
				}
			}
			if(i >= from) dispatch(c, h, &rng);
			hist_done(i);
		}
		return 0;
	}
	c.lo = parse_list(a.str("lo", "1,2,3")); c.hi = parse_list(a.str("hi", a.str("lo", "1,2,3").c_str()));
	c.qmin = a.num("qmin", 0); c.qmax = a.num("qmax", 4);
	std::string line; long long idx = 0;
	while(read_line(line)) {
		if(line.empty()) continue;
		if(idx >= from) {
			J j = parse_json(line);
			std::vector<Op> h;
			for(size_t i = 0; i < j.size(); i++) h.push_back({j[i].string("op"), (int)j[i].num("e"), (int)j[i].num("b")});
			dispatch(c, h, nullptr);
		}
		hist_done(idx); idx++;
	}
	return 0;
}

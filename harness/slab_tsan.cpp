// ThreadSanitizer witness for C05: free-running threads on the real slab_pool with
// frg::ticket_spinlock as its mutex. The cooperative scheduler interleaves only at seam points;
// races on pool state between two seam points (e.g. a removed or narrowed lock) show up here.
// Hand-offs between threads go through a std::mutex-protected exchange, so they are never the
// reported pair. Prints one JSON line; a race report makes the process exit non-zero.
#include <new>
#include <cstdio>
#include <cstdlib>
#include <cstring>
#include <thread>
#include <mutex>
#include <vector>
#include <atomic>
#include <sys/mman.h>
#include <frg/spinlock.hpp>
#include <frg/slab.hpp>

extern "C" void frg_panic(const char *msg) { fprintf(stderr, "PANIC %s\n", msg); _exit(81); }
extern "C" void frg_log(const char *) {}

struct Policy {
	static constexpr size_t pagesize = 64, slabsize = 256, sb_size = 256;
	static constexpr int num_buckets = 4;
	uintptr_t map(size_t len) {
		void *p = mmap(nullptr, len + 4096, PROT_READ | PROT_WRITE, MAP_PRIVATE | MAP_ANONYMOUS, -1, 0);
		return p == MAP_FAILED ? 0 : (uintptr_t)p + 8;
	}
	void unmap(uintptr_t base, size_t len) { munmap((void *)(base - 8), len + 4096); }
};
using Pool = frg::slab_pool<Policy, frg::ticket_spinlock>;

struct Rng { uint64_t s; uint64_t next() { s ^= s << 13; s ^= s >> 7; s ^= s << 17; return s; } };

int main(int argc, char **argv) {
	int nthreads = argc > 1 ? atoi(argv[1]) : 4;
	long iters = argc > 2 ? atol(argv[2]) : 20000;
	uint64_t seed = argc > 3 ? strtoull(argv[3], nullptr, 10) : 1;
	Policy policy;
	Pool pool(policy);
	std::mutex xmu;
	std::vector<std::pair<void *, size_t>> exchange;     // blocks handed to other threads
	std::atomic<long> done{0};
	std::vector<std::thread> th;
	for(int t = 0; t < nthreads; t++) th.emplace_back([&, t] {
		Rng rng{seed * 1000003 + t + 1};
		std::vector<std::pair<void *, size_t>> mine;
		static const size_t sizes[] = {1, 8, 9, 16, 31, 32, 33, 64, 64, 64, 65, 200};
		for(long i = 0; i < iters; i++) {
			int c = rng.next() % 100;
			if(mine.empty() || c < 45) {
				size_t n = sizes[rng.next() % 12];
				void *p = pool.allocate(n);
				if(p) { memset(p, t + 1, n); mine.push_back({p, n}); }
			} else if(c < 75) {
				auto b = mine.back(); mine.pop_back();
				if(c & 1) pool.free(b.first); else pool.deallocate(b.first, b.second);
			} else if(c < 85) {
				size_t n = sizes[rng.next() % 12];
				auto &b = mine[rng.next() % mine.size()];
				void *q = pool.realloc(b.first, n);
				if(q) { b = {q, n}; memset(q, t + 1, n); }
			} else if(c < 93) {           // hand a block to whoever takes it
				std::lock_guard<std::mutex> g(xmu);
				exchange.push_back(mine.back()); mine.pop_back();
			} else {                      // free a block another thread allocated
				std::pair<void *, size_t> b{nullptr, 0};
				{ std::lock_guard<std::mutex> g(xmu); if(!exchange.empty()) { b = exchange.back(); exchange.pop_back(); } }
				if(b.first) pool.free(b.first);
			}
		}
		for(auto &b : mine) pool.free(b.first);
		done++;
	});
	for(auto &x : th) x.join();
	for(auto &b : exchange) pool.free(b.first);
	printf("{\"e\":\"TsanWitness\",\"threads\":%d,\"iters\":%ld,\"done\":%ld,\"pages\":%zu}\n", nthreads, iters, done.load(), pool.numUsedPages());
	return 0;
}

// Harness for C13 (sequence containers) and, with --tracked, the lifetime ledger of C16:
// vector, small_vector<N>, dyn_array, stack, list and intrusive_list over int or Tracked.
#include <new>
#include "common/trace.hpp"
#include "common/valloc.hpp"
#include "common/tracked.hpp"
#include <frg/vector.hpp>
#include <frg/small_vector.hpp>
#include <frg/dyn_array.hpp>
#include <frg/stack.hpp>
#include <frg/list.hpp>
#include <memory>

using namespace vt;

struct Op { std::string name; int d; long long x, y; };

template<class T> static T mk(long long v) { return T(v); }

// ------------------------------------------------------------------ generic two-slot runner
template<class C>
struct Slots {
	alignas(C) unsigned char store[2][sizeof(C)];
	bool alive[2] = {false, false};
	C &at(int d) { return *reinterpret_cast<C *>(store[d - 1]); }
	void construct_default(int d) { new (store[d - 1]) C(); alive[d - 1] = true; }
	void destroy(int d) { if(alive[d - 1]) { at(d).~C(); alive[d - 1] = false; } }
};

static std::string obs_json(long long size, long long empty, long long front, long long back,
		const std::vector<long long> &idx, const std::vector<long long> &it, const std::vector<long long> &rev) {
	return "[" + std::to_string(size) + "," + std::to_string(empty) + "," + std::to_string(front) + "," + std::to_string(back) + "," + jarr(idx) + "," + jarr(it) + "," + jarr(rev) + "]";
}

// ---------------- vector-like (vector, small_vector, dyn_array)
template<class C, class T, int KIND>   // KIND 0 vector, 1 small_vector, 2 dyn_array
struct VecRunner {
	Slots<C> sl;
	std::string observe(int d) {
		C &c = sl.at(d);
		std::vector<long long> idx, it;
		for(size_t i = 0; i < c.size(); i++) idx.push_back(value_of(c[i]));
		for(auto p = c.begin(); p != c.end(); ++p) it.push_back(value_of(*p));
		long long front = -1, back = -1;
		if constexpr (KIND != 2) { if(c.size()) { front = value_of(c.front()); back = value_of(c.back()); } }
		return obs_json(c.size(), c.empty() ? 1 : 0, front, back, idx, it, {});
	}
	// the same observation through the const overloads (operator[], begin/end, front/back, data) - a mutation campaign
	// showed that the const twin of an accessor can be broken while the non-const one is observed
	std::string observe_const(int d) {
		const C &c = sl.at(d);
		std::vector<long long> idx, it;
		for(size_t i = 0; i < c.size(); i++) idx.push_back(value_of(c[i]));
		for(auto p = c.begin(); p != c.end(); ++p) it.push_back(value_of(*p));
		long long front = -1, back = -1;
		if constexpr (KIND != 2) { if(c.size()) { front = value_of(c.front()); back = value_of(c.back()); } }
		if(c.size() && (value_of(*c.data()) != idx[0] || value_of(*sl.at(d).data()) != idx[0])) front = -7;     // data() names the first element
		return obs_json(c.size(), c.empty() ? 1 : 0, front, back, idx, it, {});
	}
	void begin() {
		sl.construct_default(1); sl.construct_default(2);
		addrs().add_pseudo(sl.store[0], sizeof(C), 1001); addrs().add_pseudo(sl.store[1], sizeof(C), 1002);
	}
	long long apply(const Op &o) {
		int d = o.d, s = 3 - o.d;
		C &c = sl.at(d);
		long long res = 0;
		if constexpr (KIND != 2) {
			if(o.name == "push") { T v = mk<T>(o.x); if constexpr (KIND == 0) c.push(v); else c.push_back(v); return 0; }
			if(o.name == "push_alias") { Ev("AliasPush").i("d", d).emit(); if constexpr (KIND == 0) c.push(c[0]); else c.push_back(c[0]); return 0; }
			if(o.name == "resize_alias") { Ev("AliasArg").str("op", "resize").emit(); c.resize(c.size() + 2, c[0]); return 0; }
			if(o.name == "push_move_alias") { Ev("AliasArg").str("op", "push_rvalue").emit(); if constexpr (KIND == 0) c.push(std::move(c[0])); else c.push_back(std::move(c[0])); return 0; }
			if(o.name == "emplace_alias") { Ev("AliasPush").i("d", d).emit(); c.emplace_back(c[0]); return 0; }
			if(o.name == "push_move") { if constexpr (KIND == 0) c.push(mk<T>(o.x)); else c.push_back(mk<T>(o.x)); return 0; }
			if(o.name == "emplace") { c.emplace_back((long long)o.x); return 0; }
			if(o.name == "pop") { if constexpr (KIND == 0) { T v = c.pop(); res = value_of(v); } else { res = value_of(c.back()); c.pop_back(); } return res; }
			if(o.name == "resize") { c.resize(o.x); return 0; }
			if(o.name == "resize_val") { c.resize(o.x, (long long)o.y); return 0; }
		}
		if constexpr (KIND == 0) { if(o.name == "clear") { c.clear(); return 0; } }
		if constexpr (KIND == 2) {
			if(o.name == "construct_n") { sl.destroy(d); new (sl.store[d - 1]) C((size_t)o.x); sl.alive[d - 1] = true; return 0; }
			if(o.name == "set") { c[o.x - 1] = mk<T>(o.y); return 0; }
		}
		if(o.name == "copy_construct") { sl.destroy(d); new (sl.store[d - 1]) C(sl.at(s)); sl.alive[d - 1] = true; return 0; }
		if(o.name == "move_construct") { sl.destroy(d); new (sl.store[d - 1]) C(std::move(sl.at(s))); sl.alive[d - 1] = true; return 0; }
		if constexpr (KIND != 1) {
			if(o.name == "copy_assign") { c = sl.at(s); return 0; }
			if(o.name == "move_assign") { c = std::move(sl.at(s)); return 0; }
		}
		if(o.name == "swap") { swap(c, sl.at(s)); return 0; }
		return -999;
	}
	// == and != in both directions have to tell the same story
	long long equal() {
		if constexpr (KIND == 0) {
			const C &a = sl.at(1), &b = sl.at(2);
			bool e = a == b;
			if((b == a) != e || (a != b) == e || (b != a) == e) return -7;
			return e ? 1 : 0;
		} else return -1;
	}
	void end() { sl.destroy(1); sl.destroy(2); }
};

// ---------------- stack
template<class T>
struct StackRunner {
	using C = frg::stack<T, VAlloc>;
	Slots<C> sl;
	std::string observe(int d) {
		if(d == 2) return obs_json(0, 1, -1, -1, {}, {}, {});
		C &c = sl.at(1);
		return obs_json(c.size(), c.empty() ? 1 : 0, -1, c.size() ? value_of(c.top()) : -1, {}, {}, {});
	}
	void begin() { sl.construct_default(1); }
	long long apply(const Op &o) {
		C &c = sl.at(1);
		if(o.name == "push") { T v = mk<T>(o.x); c.push(v); return 0; }
		if(o.name == "emplace") { c.emplace((long long)o.x); return 0; }
		if(o.name == "pop") { long long r = value_of(c.top()); c.pop(); return r; }
		return -999;
	}
	long long equal() { return -1; }
	void end() { sl.destroy(1); }
};

// ---------------- frg::list
template<class T>
struct ListRunner {
	using C = frg::list<T, VAlloc>;
	Slots<C> sl;
	long long n = 0;     // the list has no size(): the harness counts its own calls, the spec compares front/empty
	std::string observe(int d) {
		if(d == 2) return obs_json(0, 1, -1, -1, {}, {}, {});
		C &c = sl.at(1);
		return obs_json(-1, c.empty() ? 1 : 0, c.empty() ? -1 : value_of(c.front()), -1, {}, {}, {});
	}
	void begin() { sl.construct_default(1); }
	long long apply(const Op &o) {
		C &c = sl.at(1);
		if(o.name == "emplace") { c.emplace_back((long long)o.x); return 0; }
		if(o.name == "pop_front") { long long r = value_of(c.front()); c.pop_front(); return r; }
		return -999;
	}
	long long equal() { return -1; }
	void end() { sl.destroy(1); }
};

// ---------------- intrusive_list
struct INode { long long id = 0; frg::default_list_hook<INode> hook; };
struct IListRunner {
	using C = frg::intrusive_list<INode, frg::locate_member<INode, frg::default_list_hook<INode>, &INode::hook>>;
	Slots<C> sl;
	std::vector<std::unique_ptr<INode>> nodes;
	INode *node(long long id) { while((long long)nodes.size() <= id) { nodes.push_back(std::make_unique<INode>()); nodes.back()->id = nodes.size() - 1; } return nodes[id].get(); }
	std::string observe(int d) {
		C &c = sl.at(d);
		std::vector<long long> it, rev;
		int guard = 0;
		for(auto i = c.begin(); i != c.end(); ++i) { it.push_back((*i)->id); if(++guard > 10000) { it.push_back(-5); break; } }
		{	// the post-increment form walks the same sequence and returns the position it left
			std::vector<long long> it2; int g2 = 0;
			for(auto i = c.begin(); i != c.end(); ) { auto was = i++; it2.push_back((*was)->id); if(++g2 > 10000) break; }
			if(it2 != it) it.push_back(-6);
		}
		guard = 0;
		for(INode *p = c.back(); p; p = p->hook.previous) { rev.push_back(p->id); if(++guard > 10000) { rev.push_back(-5); break; } }
		return obs_json(-1, c.empty() ? 1 : 0, c.front() ? c.front()->id : -1, c.back() ? c.back()->id : -1, {}, it, rev);
	}
	void begin() { sl.construct_default(1); sl.construct_default(2); }
	long long apply(const Op &o) {
		C &c = sl.at(o.d);
		if(o.name == "push_front") { c.push_front(node(o.x)); return 0; }
		if(o.name == "push_back") { c.push_back(node(o.x)); return 0; }
		if(o.name == "insert_before") { c.insert(o.y ? c.iterator_to(node(o.y)) : c.end(), node(o.x)); return 0; }
		// a removed element has left the list: its hook says so and holds no links (it may be linked again)
		auto gone = [](INode *r) -> long long { if(!r) return -1; return (r->hook.in_list || r->hook.next || r->hook.previous) ? -9 : r->id; };
		if(o.name == "erase") { INode *r = c.erase(c.iterator_to(node(o.x))); return gone(r); }
		if(o.name == "pop_front") { INode *r = c.pop_front(); return gone(r); }
		if(o.name == "pop_back") { INode *r = c.pop_back(); return gone(r); }
		if(o.name == "clear") { c.clear(); return 0; }
		if(o.name == "splice_end") { c.splice(c.end(), sl.at(3 - o.d)); return 0; }
		return -999;
	}
	long long equal() { return -1; }
	long long hooks_clean() {     // elements outside both lists must have reset hooks
		long long bad = 0;
		for(auto &n : nodes) { bool linked = n->hook.in_list; if(!linked && (n->hook.next || n->hook.previous)) bad++; }
		return bad;
	}
	void end() { sl.at(1).clear(); sl.at(2).clear(); sl.destroy(1); sl.destroy(2); }
};

// ------------------------------------------------------------------ driver
template<class R>
static void run_one(R &r, const std::string &kind, const std::string &elem, int N, const std::vector<Op> &h, bool lastonly) {
	blocks().reset(); addrs().reset();
	Ev("Reset").str("kind", kind).str("elem", elem).i("N", N).emit();
	blocks().log_events = ledger_on();
	try {
		r.begin();
		for(size_t i = 0; i < h.size(); i++) {
			const Op &o = h[i];
			if(ledger_on()) Ev("OpBegin").str("name", o.name).i("d", o.d).emit();
			long long res = r.apply(o);
			Ev ev("Op");
			ev.str("name", o.name).i("d", o.d).i("x", o.x).i("y", o.y).i("res", res);
			bool chk = !lastonly || i + 1 == h.size();
			ev.i("chk", chk ? 1 : 0);
			if(chk) {
				bool lo = ledger_on(); ledger_on() = false;      // observation copies are not part of the history
				ev.raw("obs", "[" + r.observe(1) + "," + r.observe(2) + "]").i("eq", r.equal());
				if constexpr (requires { r.observe_const(1); }) ev.raw("cobs", "[" + r.observe_const(1) + "," + r.observe_const(2) + "]");
				ledger_on() = lo;
			}
			ev.emit();
		}
		r.end();
		Ev("OwnerGone").i("live_blocks", (long long)blocks().live.size()).i("bad_frees", blocks().bad).emit();
	} catch(Panic &) {}
	blocks().log_events = false;
}

template<class T>
static void dispatch(const std::string &kind, const std::string &elem, const std::vector<Op> &h, bool lastonly) {
	if(kind == "vector") { VecRunner<frg::vector<T, VAlloc>, T, 0> r; run_one(r, kind, elem, 0, h, lastonly); }
	else if(kind == "small_vector") { VecRunner<frg::small_vector<T, 4, VAlloc>, T, 1> r; run_one(r, kind, elem, 4, h, lastonly); }
	else if(kind == "small_vector1") { VecRunner<frg::small_vector<T, 1, VAlloc>, T, 1> r; run_one(r, "small_vector", elem, 1, h, lastonly); }
	else if(kind == "dyn_array") { VecRunner<frg::dyn_array<T, VAlloc>, T, 2> r; run_one(r, kind, elem, 0, h, lastonly); }
	else if(kind == "stack") { StackRunner<T> r; run_one(r, kind, elem, 0, h, lastonly); }
	else if(kind == "list") { ListRunner<T> r; run_one(r, kind, elem, 0, h, lastonly); }
	else if(kind == "ilist") { IListRunner r; run_one(r, kind, "node", 0, h, lastonly); }
}

static std::vector<Op> random_history(const std::string &kind, Rng &rng, long long len, int maxlen) {
	std::vector<Op> h;
	std::vector<long long> a[3];
	std::vector<std::string> names;
	if(kind == "vector") names = {"push", "push", "push_alias", "emplace_alias", "push_move", "emplace", "pop", "resize", "resize_val", "clear", "copy_construct", "move_construct", "copy_assign", "move_assign", "swap"};
	else if(kind == "small_vector" || kind == "small_vector1") names = {"push", "push", "push_alias", "emplace_alias", "push_move", "emplace", "pop", "resize", "resize_val", "copy_construct", "move_construct", "swap"};
	else if(kind == "dyn_array") names = {"construct_n", "set", "set", "copy_construct", "move_construct", "copy_assign", "move_assign", "swap"};
	else if(kind == "stack") names = {"push", "emplace", "pop"};
	else if(kind == "list") names = {"emplace", "emplace", "pop_front"};
	else names = {"push_front", "push_back", "push_back", "insert_before", "erase", "pop_front", "pop_back", "clear", "splice_end"};
	bool one = kind == "stack" || kind == "list";
	long long next_node = 1;
	for(long long s = 0; s < len; s++) {
		Op o{names[rng.below(names.size())], one ? 1 : (int)rng.below(2) + 1, 0, 0};
		auto &q = a[o.d]; auto &oq = a[3 - o.d];
		if(kind == "ilist") {
			if(o.name == "push_front" || o.name == "push_back") { if((int)q.size() >= maxlen) continue; o.x = next_node++; if(o.name == "push_front") q.insert(q.begin(), o.x); else q.push_back(o.x); }
			else if(o.name == "insert_before") { if((int)q.size() >= maxlen) continue; o.x = next_node++; if(q.empty() || rng.coin(20)) { o.y = 0; q.push_back(o.x); } else { size_t k = rng.below(q.size()); o.y = q[k]; q.insert(q.begin() + k, o.x); } }
			else if(o.name == "erase") { if(q.empty()) continue; size_t k = rng.below(q.size()); o.x = q[k]; q.erase(q.begin() + k); }
			else if(o.name == "pop_front") { if(q.empty()) continue; q.erase(q.begin()); }
			else if(o.name == "pop_back") { if(q.empty()) continue; q.pop_back(); }
			else if(o.name == "clear") { if(rng.coin(80)) continue; q.clear(); }
			else { for(auto v : oq) q.push_back(v); oq.clear(); }
		} else {
			if(o.name == "push" || o.name == "push_move" || o.name == "emplace") { if((int)q.size() >= maxlen) continue; o.x = rng.below(5) + 1; q.push_back(o.x); }
			else if(o.name == "push_alias" || o.name == "emplace_alias") { if(q.empty() || (int)q.size() >= maxlen) continue; q.push_back(q[0]); }
			else if(o.name == "pop") { if(q.empty()) continue; q.pop_back(); }
			else if(o.name == "pop_front") { if(q.empty()) continue; q.erase(q.begin()); }
			else if(o.name == "resize" || o.name == "resize_val" || o.name == "construct_n") {
				o.x = rng.coin(30) ? rng.below(maxlen) : (long long)q.size() + (long long)rng.below(7) - 3; if(o.x < 0) o.x = 0; if(o.x > maxlen) o.x = maxlen;
				o.y = o.name == "resize_val" ? rng.below(5) + 1 : 0;
				if(o.name == "construct_n") q.clear();
				q.resize(o.x, o.y);
			}
			else if(o.name == "set") { if(q.empty()) continue; o.x = rng.below(q.size()) + 1; o.y = rng.below(5) + 1; q[o.x - 1] = o.y; }
			else if(o.name == "clear") { q.clear(); }
			else if(o.name == "copy_construct" || o.name == "copy_assign") { q = oq; }
			else if(o.name == "move_construct" || o.name == "move_assign") { q = oq; oq.clear(); }
			else if(o.name == "swap") { std::swap(q, oq); }
		}
		h.push_back(o);
	}
	return h;
}

int main(int argc, char **argv) {
	Args a(argc, argv);
	install_terminate();
	std::string kind = a.str("kind", "vector");
	bool tracked = a.has("tracked");
	ledger_on() = tracked;
	long long from = a.num("from", 0);
	bool lastonly = a.has("lastonly");
	auto go = [&](const std::vector<Op> &h) { if(tracked) dispatch<Tracked>(kind, "tracked", h, lastonly); else dispatch<long long>(kind, "int", h, lastonly); };
	if(a.has("random")) {
		long long cnt = a.num("random", 5), len = a.num("len", 300);
		for(long long i = 0; i < cnt; i++) { Rng rng(a.num("seed", 1) * 3571 + i); auto h = random_history(kind, rng, len, a.num("maxlen", 40)); if(i >= from) go(h); hist_done(i); }
		return 0;
	}
	std::string line; long long idx = 0;
	while(read_line(line)) {
		if(line.empty()) continue;
		if(idx >= from) {
			J j = parse_json(line);
			std::vector<Op> h;
			for(size_t i = 0; i < j.size(); i++) h.push_back({j[i].string("name"), (int)j[i].num("d"), j[i].num("x"), j[i].num("y")});
			go(h);
		}
		hist_done(idx); idx++;
	}
	return 0;
}

// Harness for C01-C05: the real frg::slab_pool<Policy, Mutex> over an instrumented policy (every
// map/unmap/poison callback logged; regions come from the OS and are really unmapped) and an
// instrumented mutex (scheduler-aware). Sequential histories (replayed or random) and concurrent
// scripts under the cooperative scheduler. Executes and records only.
#include <new>
#include <sys/mman.h>
#include <sanitizer/asan_interface.h>
#include "common/trace.hpp"
#include "common/vsched.hpp"
#include "common/vmutex.hpp"
#define private public
#include <frg/slab.hpp>
#undef private
#include <deque>
#include <algorithm>

using namespace vt;

// ------------------------------------------------------------------ regions
struct Region { uintptr_t base; size_t len; long long rid; void *os_base; size_t os_len; };
static std::map<uintptr_t, Region> g_regions;     // live regions by base
static long long g_next_rid = 1;
struct Loc { long long r, o; };
static Loc locate(const void *p) {
	// <<0, 0>> is the null pointer; a non-null address outside every mapped region is <<-1, 0>> (it must not look like null)
	uintptr_t a = (uintptr_t)p;
	if(!a) return {0, 0};
	auto it = g_regions.upper_bound(a);
	if(it == g_regions.begin()) return {-1, 0};
	--it;
	if(a >= it->second.base && a < it->second.base + it->second.len) return {it->second.rid, (long long)(a - it->second.base)};
	return {-1, 0};
}

// fault plan: which map() calls fail. Scripted: the controller arms `fail_next[t]`; random: by rate.
static std::vector<int> g_fail_next;
static size_t g_sb_size = 1;
static Rng *g_fail_rng = nullptr; static int g_fail_pct = 0;

template<bool Poison>
struct PolicyBase {
	bool asan_forward = true;
	uintptr_t do_map(size_t len, size_t align) {
		int t = tid();
		bool fail = false;
		if(t < (int)g_fail_next.size() && g_fail_next[t] > 0) { fail = true; g_fail_next[t]--; }
		else if(g_fail_rng && g_fail_pct && (int)g_fail_rng->below(100) < g_fail_pct) fail = true;
		if(fail) { Ev("MapFail").i("t", t).i("len", (long long)len).emit(); seam_yield(1); return 0; }
		size_t os_len = ((len + (align ? align : 0) + 4095) / 4096) * 4096 + 4096;
		void *os = mmap(nullptr, os_len, PROT_READ | PROT_WRITE, MAP_PRIVATE | MAP_ANONYMOUS, -1, 0);
		if(os == MAP_FAILED) { Ev("MapFail").i("t", t).i("len", (long long)len).i("os", 1).emit(); return 0; }
		uintptr_t base = (uintptr_t)os;
		if(align) base = (base + align - 1) & ~(uintptr_t)(align - 1);
		else base += 8;          // an unaligned policy really returns an unaligned (but 8-aligned) base
		ASAN_UNPOISON_MEMORY_REGION(os, os_len);   // the OS may hand back addresses whose shadow is stale
		memset(os, 0xEE, os_len);
		Region r{base, len, g_next_rid++, os, os_len};
		g_regions[base] = r;
		if(Poison && asan_forward) ASAN_POISON_MEMORY_REGION((void *)base, len);
		// where the pool keeps the region's header: at the superblock-aligned start of the reservation
		uintptr_t sbal = (base + g_sb_size - 1) & ~(uintptr_t)(g_sb_size - 1);
		Ev("MapOk").i("t", t).i("rid", r.rid).i("len", (long long)len).i("align", (long long)align).i("sboff", (long long)(sbal - base)).emit();
		seam_yield(1);
		return base;
	}
	void unmap(uintptr_t base, size_t len) {
		int t = tid();
		auto it = g_regions.find(base);
		Loc l = locate((void *)base);
		bool exact = it != g_regions.end() && it->second.len == len;
		Ev("Unmap").i("t", t).i("rid", l.r).i("off", l.o).i("len", (long long)len).i("exact", exact ? 1 : 0).emit();
		if(exact) {
			ASAN_UNPOISON_MEMORY_REGION(it->second.os_base, it->second.os_len);
			munmap(it->second.os_base, it->second.os_len);     // really gone: a later touch faults
			g_regions.erase(it);
		}
		seam_yield(1);
	}
};

template<size_t PageSize, size_t SlabSize, size_t SbSize, int NumBuckets, bool Aligned, bool Poison>
struct VPolicy;

#define POLICY_COMMON \
	static constexpr size_t pagesize = PageSize; \
	static constexpr size_t slabsize = SlabSize; \
	static constexpr size_t sb_size = SbSize; \
	static constexpr int num_buckets = NumBuckets;

#define POISON_HOOKS \
	void poison(void *p, size_t n) { Loc l = locate(p); Ev("Poison").i("t", tid()).i("rid", l.r).i("off", l.o).i("n", (long long)n).emit(); if(this->asan_forward && l.r > 0) ASAN_POISON_MEMORY_REGION(p, n); } \
	void unpoison(void *p, size_t n) { Loc l = locate(p); Ev("Unpoison").i("t", tid()).i("rid", l.r).i("off", l.o).i("n", (long long)n).emit(); if(this->asan_forward && l.r > 0) ASAN_UNPOISON_MEMORY_REGION(p, n); } \
	void unpoison_expand(void *p, size_t n) { Loc l = locate(p); Ev("UnpoisonExpand").i("t", tid()).i("rid", l.r).i("off", l.o).i("n", (long long)n).emit(); if(this->asan_forward && l.r > 0) ASAN_UNPOISON_MEMORY_REGION(p, n); }

template<size_t PageSize, size_t SlabSize, size_t SbSize, int NumBuckets>
struct VPolicy<PageSize, SlabSize, SbSize, NumBuckets, true, true> : PolicyBase<true> {
	POLICY_COMMON
	uintptr_t map(size_t len, size_t align) { return do_map(len, align); }
	POISON_HOOKS
};
template<size_t PageSize, size_t SlabSize, size_t SbSize, int NumBuckets>
struct VPolicy<PageSize, SlabSize, SbSize, NumBuckets, true, false> : PolicyBase<false> {
	POLICY_COMMON
	uintptr_t map(size_t len, size_t align) { return do_map(len, align); }
};
template<size_t PageSize, size_t SlabSize, size_t SbSize, int NumBuckets>
struct VPolicy<PageSize, SlabSize, SbSize, NumBuckets, false, true> : PolicyBase<true> {
	POLICY_COMMON
	uintptr_t map(size_t len) { return do_map(len, 0); }
	POISON_HOOKS
};
template<size_t PageSize, size_t SlabSize, size_t SbSize, int NumBuckets>
struct VPolicy<PageSize, SlabSize, SbSize, NumBuckets, false, false> : PolicyBase<false> {
	POLICY_COMMON
	uintptr_t map(size_t len) { return do_map(len, 0); }
};

// ------------------------------------------------------------------ scripts
struct Call { std::string op; long long n; int blk; int fail; int ver = 0; };   // ver: how many calls on this slot must have completed before   // blk: index into the thread-shared block table
struct Block { void *p = nullptr; size_t req = 0; unsigned tag = 0; bool live = false; int ver = 0; };

static void fill(void *p, size_t n, unsigned tag) { unsigned char *b = (unsigned char *)p; for(size_t i = 0; i < n; i++) b[i] = (unsigned char)(tag * 131 + i * 7 + 1); }
static size_t intact(const void *p, size_t n, unsigned tag) { const unsigned char *b = (const unsigned char *)p; for(size_t i = 0; i < n; i++) if(b[i] != (unsigned char)(tag * 131 + i * 7 + 1)) return i; return n; }

template<class Policy>
struct Runner {
	using Pool = frg::slab_pool<Policy, VMutex>;
	Policy policy;
	Pool *pool = nullptr;
	std::vector<Block> blocks;       // block table (slot -> live block)
	unsigned next_tag = 1;
	int nthreads = 1;
	int high = 0;

	std::string geometry() {
		std::vector<long long> per, sizes;
		for(int i = 0; i < Pool::num_buckets; i++) {
			size_t item = Pool::bucket_to_size(i), overhead = 0;
			while(overhead < sizeof(typename Pool::slab_frame)) overhead += item;
			sizes.push_back(item); per.push_back((Policy::slabsize - overhead) / item);
		}
		Ev ev("Reset");
		ev.i("pagesize", Policy::pagesize).i("slabsize", Policy::slabsize).i("sb", Policy::sb_size).i("buckets", Pool::num_buckets)
		  .i("aligned", frg::is_detected_v<frg::policy_map_aligned_t, Policy> ? 1 : 0).i("poison", Pool::has_poisoning ? 1 : 0)
		  .i("hdrSlab", sizeof(typename Pool::slab_frame)).i("hdrLarge", sizeof(typename Pool::frame))
		  .i("maxSmall", Pool::max_bucket_size).raw("sizes", jarr(sizes)).raw("perSlab", jarr(per)).i("threads", nthreads)
		  .i("trackbytes", Policy::sb_size <= 4096 ? 1 : 0);
		return ev.s;
	}

	void name_mutexes() {
		pool->_tree_mutex.name = "tree";
		static std::vector<std::string> names;
		names.resize(Pool::num_buckets);
		for(int i = 0; i < Pool::num_buckets; i++) { names[i] = "b" + std::to_string(i); pool->_bkts[i].bucket_mutex.name = names[i].c_str(); }
	}

	void loc(Ev &ev, const char *k, const void *p) { Loc l = locate(p); std::vector<long long> v{l.r, l.o}; ev.raw(k, jarr(v)); }

	// verify the contents of every live block this thread may look at (sequential mode: all)
	void check_contents(Ev &ev) {
		std::vector<std::vector<long long>> bad;
		long long checked = 0;
		for(int i = 0; i < high; i++) if(blocks[i].live) {
			checked++;
			size_t k = intact(blocks[i].p, blocks[i].req, blocks[i].tag);
			if(k != blocks[i].req) { Loc l = locate(blocks[i].p); bad.push_back({l.r, l.o, (long long)k}); }
		}
		ev.i("checked", checked).raw("corrupt", jarr2(bad));
	}

	void do_call(int t, const Call &c, bool verify) {
		// the table is pre-sized (threads hold references into it); `high` bounds the part in use
		if(c.blk >= (int)blocks.size()) { Ev("harness_error").str("why", "block table too small").emit(); return; }
		if(c.blk >= high) high = c.blk + 1;
		Block &b = blocks[c.blk];
		if(t < (int)g_fail_next.size()) g_fail_next[t] = c.fail;
		if(c.op == "alloc") {
			Ev("Call").i("t", t).str("op", "alloc").i("n", c.n).emit();
			void *p = pool->allocate(c.n);
			Ev ev("Ret"); ev.i("t", t).str("op", "alloc").i("n", c.n); loc(ev, "p", p);
			if(p) {
				b = Block{p, (size_t)c.n, next_tag++, true, b.ver};
				fill(p, c.n, b.tag);
				ev.i("size", (long long)pool->get_size(p)).i("align8", ((uintptr_t)p % 8) ? 0 : 1).i("amod", (long long)((uintptr_t)p % Policy::pagesize));
			}
			ev.i("pages", (long long)pool->numUsedPages());
			if(verify) check_contents(ev);
			ev.emit();
		} else if(c.op == "free" || c.op == "dealloc") {
			Ev ev0("Call"); ev0.i("t", t).str("op", c.op).i("n", (long long)b.req); loc(ev0, "p", b.live ? b.p : nullptr); ev0.emit();
			void *p = b.live ? b.p : nullptr;
			size_t req = b.req;
			b.live = false;
			if(c.op == "free") pool->free(p); else pool->deallocate(p, req);
			Ev ev("Ret"); ev.i("t", t).str("op", c.op); ev.i("pages", (long long)pool->numUsedPages());
			if(verify) check_contents(ev);
			ev.emit();
		} else if(c.op == "realloc") {
			void *p = b.live ? b.p : nullptr;
			Ev ev0("Call"); ev0.i("t", t).str("op", "realloc").i("n", c.n); loc(ev0, "p", p); ev0.emit();
			size_t old_req = b.live ? b.req : 0; unsigned old_tag = b.tag;
			bool was_live = b.live;
			b.live = false;        // during the call the old block is in limbo
			void *q = pool->realloc(p, c.n);
			Ev ev("Ret"); ev.i("t", t).str("op", "realloc").i("n", c.n); loc(ev, "p", q);
			if(q) {
				size_t keep = std::min(old_req, (size_t)c.n);
				ev.i("prefix_ok", (!was_live || intact(q, keep, old_tag) == keep) ? 1 : 0);
				b = Block{q, (size_t)c.n, next_tag++, true, b.ver};
				fill(q, c.n, b.tag);
				ev.i("size", (long long)pool->get_size(q)).i("align8", ((uintptr_t)q % 8) ? 0 : 1).i("amod", (long long)((uintptr_t)q % Policy::pagesize));
			} else if(c.n != 0 && was_live) {
				// failed realloc: the source block must still be valid with its contents
				b = Block{p, old_req, old_tag, true, b.ver};
				ev.i("src_ok", intact(p, old_req, old_tag) == old_req ? 1 : 0);
			}
			ev.i("pages", (long long)pool->numUsedPages());
			if(verify) check_contents(ev);
			ev.emit();
		} else if(c.op == "getsize") {
			Ev ev("Ret"); ev.i("t", t).str("op", "getsize"); loc(ev, "p", b.live ? b.p : nullptr);
			ev.i("size", (long long)pool->get_size(b.live ? b.p : nullptr)).i("pages", (long long)pool->numUsedPages());
			if(verify) check_contents(ev);
			ev.emit();
		} else if(c.op == "freenull") {
			Ev ev0("Call"); ev0.i("t", t).str("op", "free").i("n", 0); loc(ev0, "p", nullptr); ev0.emit();
			pool->free(nullptr); pool->deallocate(nullptr, 8);
			Ev ev("Ret"); ev.i("t", t).str("op", "free").i("pages", (long long)pool->numUsedPages());
			if(verify) check_contents(ev);
			ev.emit();
		}
	}

	void begin(int threads) {
		nthreads = threads;
		g_sb_size = Policy::sb_size;
		for(auto &kv : g_regions) { ASAN_UNPOISON_MEMORY_REGION(kv.second.os_base, kv.second.os_len); munmap(kv.second.os_base, kv.second.os_len); }
		g_regions.clear(); g_next_rid = 1;
		blocks.assign(1 << 16, Block{}); next_tag = 1; high = 0;   // ver = 0 everywhere
		g_fail_next.assign(threads, 0);
		out().buf += geometry() + "}\n";
		pool = new Pool(policy);      // never destroyed: the pool has no destructor duties, regions are dropped above
		name_mutexes();
	}

	// sequential history
	void run_seq(const std::vector<Call> &h) {
		begin(1);
		try { for(auto &c : h) do_call(0, c, true); } catch(Panic &) {}
		Ev("End").i("complete", 1).emit();
	}

	// concurrent: per-thread scripts, schedule = thread ids (or random)
	void run_conc(const std::vector<std::vector<Call>> &scripts, const std::vector<int> *schedule, Rng *rng) {
		int n = (int)scripts.size();
		begin(n);
		static Sched s;
		std::vector<size_t> pos(n, 0);
		s.start(n, [&](int t) {
			for(auto &c : scripts[t]) {
				// a free of a block another thread has not produced yet waits for it
				// calls on one slot happen in script order, whichever threads issue them
				if(c.op != "freenull") { while(blocks[c.blk].ver != c.ver) seam_yield(0); }
				do_call(t, c, false);
				if(c.op != "freenull") blocks[c.blk].ver = c.ver + 1;
				seam_yield(1);      // the API return is a scheduling point of its own
				if(Sched::cur()) Sched::cur()->progress++;
			}
			Ev("ThreadDone").i("t", t).emit();
		});
		if(schedule) { for(int t : *schedule) s.step(t); }
		else {
			long long steps = 0; int last = 0;
			while(!s.all_done()) {
				int t = rng->coin(50) ? last : (int)rng->below(n);
				if(s.is_done(t)) { t = (int)rng->below(n); if(s.is_done(t)) continue; }
				last = t; s.step(t);
				if(++steps > 2000000) { Ev("stall").str("why", "step limit").emit(); break; }
				if((steps & 63) == 0 && s.stalled(8)) { Ev("stall").str("why", "every unfinished thread blocks without any change of shared state").emit(); break; }
			}
		}
		bool complete = s.all_done();
		s.finish();
		Ev ev("End"); ev.i("complete", complete ? 1 : 0);
		if(complete) { ev.i("pages", (long long)pool->numUsedPages()); check_contents(ev); }
		ev.emit();
	}
};

// sizes around every class boundary, the small/large threshold, page rounding, several superblocks
template<class Policy>
static std::vector<long long> interesting_sizes() {
	using Pool = frg::slab_pool<Policy, VMutex>;
	std::vector<long long> v{0, 1, 7, 8, 9};
	for(int i = 0; i < Pool::num_buckets; i++) { long long s = Pool::bucket_to_size(i); v.push_back(s - 1); v.push_back(s); v.push_back(s + 1); }
	long long m = Pool::max_bucket_size, pg = Policy::pagesize, sb = Policy::sb_size;
	for(long long x : {m + pg - 1, m + pg, m + pg + 1, 2 * pg, 2 * pg + 1, sb - pg, sb - 1, sb, sb + 1, 2 * sb + 3, 3 * sb}) if(x > 0) v.push_back(x);
	return v;
}

template<class Policy>
static int main_for(Args &a) {
	Runner<Policy> R;
	long long from = a.num("from", 0);
	if(a.has("geometry")) { R.begin(1); out().flush(); return 0; }
	if(a.has("random")) {
		long long cnt = a.num("random", 5), len = a.num("len", 2000);
		int maxlive = a.num("maxlive", 60);
		std::string mode = a.str("mode", "mixed");
		auto sizes = interesting_sizes<Policy>();
		for(long long i = 0; i < cnt; i++) {
			Rng rng(a.num("seed", 1) * 5231 + i);
			g_fail_rng = &rng; g_fail_pct = a.num("failpct", 0);
			std::vector<Call> h;
			std::vector<int> live; int nextblk = 0;
			long long churn_size = sizes[rng.below(sizes.size())];
			for(long long s = 0; s < len; s++) {
				int c = rng.below(100);
				long long n = mode == "churn" ? (rng.coin(85) ? churn_size : sizes[rng.below(sizes.size())]) : (rng.coin(80) ? sizes[rng.below(sizes.size())] : (long long)rng.below(4 * Policy::sb_size));
				if(mode == "small" && n > (long long)frg::slab_pool<Policy, VMutex>::max_bucket_size) n = rng.below(frg::slab_pool<Policy, VMutex>::max_bucket_size + 1);
				if(live.empty() || (c < 45 && (int)live.size() < maxlive)) { h.push_back({"alloc", n, nextblk, 0}); live.push_back(nextblk++); }
				else if(c < 70) { size_t k = rng.below(live.size()); h.push_back({rng.coin() ? "free" : "dealloc", 0, live[k], 0}); live.erase(live.begin() + k); }
				else if(c < 90) { size_t k = rng.below(live.size()); h.push_back({"realloc", n, live[k], 0}); if(n == 0) live.erase(live.begin() + k); }
				else if(c < 95) { size_t k = rng.below(live.size()); h.push_back({"getsize", 0, live[k], 0}); }
				else if(c < 97) h.push_back({"freenull", 0, nextblk, 0});
				else { h.push_back({"realloc", n, nextblk, 0}); if(n != 0) live.push_back(nextblk); nextblk++; }   // realloc(null, n)
			}
			// NOTE: with failpct > 0 an alloc may return null; later calls on that slot are then no-ops on null, which the spec accepts
			if(i >= from) R.run_seq(h);
			g_fail_rng = nullptr;
			hist_done(i);
		}
		return 0;
	}
	if(a.has("conc")) {
		long long cnt = a.num("conc", 5);
		int nthreads = a.num("threads", 3), per = a.num("per", 30);
		auto sizes = interesting_sizes<Policy>();
		for(long long i = 0; i < cnt; i++) {
			Rng rng(a.num("seed", 1) * 7741 + i);
			std::vector<std::vector<Call>> scripts(nthreads);
			// shared block table: thread t allocates slots t, t+n, ...; frees may target any earlier slot of any thread, each at most once
			std::vector<int> produced, next(nthreads);
			for(int t = 0; t < nthreads; t++) next[t] = t;
			std::vector<std::pair<int,int>> order;     // (thread, action)
			std::vector<int> freeable;
			std::map<int, int> ver;
			for(int k = 0; k < per * nthreads; k++) {
				int t = rng.below(nthreads);
				bool small_only = rng.coin(80);
				long long n = sizes[rng.below(sizes.size())];
				if(small_only && n > (long long)frg::slab_pool<Policy, VMutex>::max_bucket_size) n = frg::slab_pool<Policy, VMutex>::max_bucket_size;
				if(freeable.empty() || rng.coin(55)) { scripts[t].push_back({"alloc", n, next[t], 0, 0}); ver[next[t]] = 1; freeable.push_back(next[t]); next[t] += nthreads; }
				else { size_t j = rng.below(freeable.size()); int blk = freeable[j]; freeable.erase(freeable.begin() + j);
					int c = rng.below(3);
					if(c == 0) scripts[t].push_back({"free", 0, blk, 0, ver[blk]++}); else if(c == 1) scripts[t].push_back({"dealloc", 0, blk, 0, ver[blk]++});
					else { scripts[t].push_back({"realloc", n, blk, 0, ver[blk]++}); if(n != 0) freeable.push_back(blk); } }
			}
			if(i >= from) R.run_conc(scripts, nullptr, &rng);
			hist_done(i);
		}
		return 0;
	}
	// scripted: stdin lines are {"scripts":[[call...],...], "schedule":[...]} or a plain array of calls (sequential)
	std::string line; long long idx = 0;
	while(read_line(line)) {
		if(line.empty()) continue;
		if(idx >= from) {
			J j = parse_json(line);
			auto parse_calls = [](const J &arr) { std::vector<Call> h; for(size_t i = 0; i < arr.size(); i++) h.push_back({arr[i].string("op"), arr[i].num("n"), (int)arr[i].num("b"), (int)arr[i].num("fail"), (int)arr[i].num("ver")}); return h; };
			if(j.k == J::Arr) R.run_seq(parse_calls(j));
			else {
				std::vector<std::vector<Call>> scripts;
				const J *sc = j.get("scripts");
				for(size_t t = 0; t < sc->size(); t++) scripts.push_back(parse_calls((*sc)[t]));
				std::vector<int> sch; const J *s = j.get("schedule");
				for(size_t k = 0; k < s->size(); k++) sch.push_back((int)(*s)[k].n);
				R.run_conc(scripts, &sch, nullptr);
			}
		}
		hist_done(idx); idx++;
	}
	return 0;
}

int main(int argc, char **argv) {
	Args a(argc, argv);
	install_terminate();
	std::string g = a.str("geom", "tiny");
	bool al = a.has("aligned"), po = a.has("poison");
#define GEOM(name, P, S, B, N) if(g == name) { \
		if(al && po) return main_for<VPolicy<P, S, B, N, true, true>>(a); \
		if(al) return main_for<VPolicy<P, S, B, N, true, false>>(a); \
		if(po) return main_for<VPolicy<P, S, B, N, false, true>>(a); \
		return main_for<VPolicy<P, S, B, N, false, false>>(a); }
#ifndef FRG_SLAB_TRACK_REGIONS     // with region tracking the frame no longer fits the padding of the two small test geometries
	GEOM("tiny", 64, 256, 256, 4)
	GEOM("small", 0x100, 0x1000, 0x1000, 6)
#endif
	GEOM("mid", 0x1000, (1 << 16), (1 << 18), 9)
	GEOM("default", 0x1000, (1 << 18), (1 << 18), 13)
	fprintf(stderr, "unknown geometry\n");
	return 2;
}

// ThreadSanitizer witnesses for C10 / C11 / C12: free-running std::threads on the real headers.
// The TLA+ models decide these properties at the granularity of atomic accesses; the witnesses are an independent
// observation channel for the same happens-before claims on real hardware scheduling: if a publication, an
// acknowledgement or a lock hand-over loses its release/acquire pairing, the PLAIN accesses it is meant to order
// become a data race that TSan reports; functional failures (lost key, torn value, broken mutual exclusion, early
// grace period) exit with their own codes.  Nothing but the component under test synchronises the racing accesses.
//   conc_tsan spin ticket|simple <threads> <iters>
//   conc_tsan radix <readers> <inserts> <seed>
//   conc_tsan qs <readers> <updates> <seed>
#include <new>
#include <cstdio>
#include <cstdlib>
#include <cstring>
#include <thread>
#include <mutex>
#include <vector>
#include <string>
#include <atomic>
#include <unistd.h>
#include <frg/spinlock.hpp>
#include <frg/rcu_radixtree.hpp>
#include <frg/qs.hpp>

extern "C" void frg_panic(const char *msg) { fprintf(stderr, "PANIC %s\n", msg); _exit(81); }
extern "C" void frg_log(const char *) {}

struct Rng { uint64_t s; uint64_t next() { s ^= s << 13; s ^= s >> 7; s ^= s << 17; return s; } };
static void fail(int code, const char *what) { fprintf(stderr, "FUNCTIONAL %s\n", what); _exit(code); }

// ------------------------------------------------------------------------------------------------ spinlocks
template<class L>
static int run_spin(int nthreads, long iters) {
	L lock;
	long counter = 0;            // plain: ordered only by the lock
	int inside = 0;              // plain
	std::vector<std::thread> th;
	for(int t = 0; t < nthreads; t++) th.emplace_back([&] {
		for(long i = 0; i < iters; i++) {
			lock.lock();
			if(inside != 0) fail(82, "two threads inside the critical section");
			inside = 1;
			counter++;
			inside = 0;
			lock.unlock();
		}
	});
	for(auto &t : th) t.join();
	if(counter != (long)nthreads * iters) fail(83, "lost update under the lock");
	if(lock.is_locked()) fail(84, "is_locked() after every holder released");
	printf("{\"mode\":\"spin\",\"threads\":%d,\"iters\":%ld,\"counter\":%ld}\n", nthreads, iters, counter);
	return 0;
}

// ------------------------------------------------------------------------------------------------ radix tree
struct Alloc {
	void *allocate(size_t n) { void *p = malloc(n); memset(p, 0xAA, n); return p; }
	void free(void *p) { ::free(p); }
	void deallocate(void *p, size_t) { ::free(p); }
};
struct Val { uint64_t key, inv; Val(uint64_t k) : key(k), inv(~k) {} };   // plain fields: ordered only by the tree's publication

static int run_radix(int nreaders, long inserts, uint64_t seed) {
	frg::rcu_radixtree<Val, Alloc> tree;
	// key universe hitting every first-difference depth: clusters around random bases, plus bases differing in high nibbles
	Rng g{seed * 7919 + 17};
	std::vector<uint64_t> keys;
	for(long i = 0; i < inserts; i++) {
		uint64_t base = (g.next() % 5 == 0) ? g.next() : (keys.empty() ? g.next() : keys[g.next() % keys.size()]);
		unsigned d = g.next() % 16;
		uint64_t k = base ^ ((g.next() & 0xF) << (4 * d));
		keys.push_back(k);
	}
	// phase 1 (before the readers exist): the first quarter is present and stays present
	size_t stable = keys.size() / 4;
	for(size_t i = 0; i < stable; i++) tree.find_or_insert(keys[i], keys[i]);
	std::atomic<bool> stop{false};
	std::vector<std::thread> th;
	for(int r = 0; r < nreaders; r++) th.emplace_back([&, r] {
		Rng rg{seed * 31 + r + 1};
		while(!stop.load(std::memory_order_relaxed)) {
			size_t i = rg.next() % keys.size();
			Val *v = tree.find(keys[i]);
			if(v) { if(v->key != keys[i] || v->inv != ~keys[i]) fail(85, "find returned a partially initialised or foreign value"); }
			else if(i < stable) fail(86, "a key that was present before the readers started and is never erased was not found");
		}
	});
	for(size_t i = stable; i < keys.size(); i++) tree.find_or_insert(keys[i], keys[i]);
	stop.store(true, std::memory_order_relaxed);
	for(auto &t : th) t.join();
	for(auto k : keys) { Val *v = tree.find(k); if(!v || v->key != k) fail(87, "key missing after the writer finished"); }
	printf("{\"mode\":\"radix\",\"readers\":%d,\"keys\":%zu}\n", nreaders, keys.size());
	return 0;
}

// ------------------------------------------------------------------------------------------------ QS domain
// Classic RCU usage: readers dereference the current object between quiescent states; the updater swaps in a new
// object and, after a grace period, scribbles over the old one (plain writes).  A grace period that ends early, or
// that carries no happens-before, makes the scribble race with a reader's plain reads.
struct Obj { long a, b; };
struct Retire : frg::qs_node { Obj *victim; std::atomic<int> *fired; };
static void on_grace(frg::qs_node *n) {
	auto r = static_cast<Retire *>(n);
	r->victim->a = -1; r->victim->b = -3;      // "free": nobody may still be reading it
	r->fired->fetch_add(1, std::memory_order_relaxed);
}

static int run_qs(int nreaders, long updates, uint64_t seed) {
	using M = std::mutex;
	static frg::qs_domain<M> dom;
	std::vector<Obj> objs(updates + 1);
	for(long i = 0; i <= updates; i++) objs[i] = {i, 2 * i};
	std::atomic<Obj *> cur{&objs[0]};
	std::atomic<bool> stop{false};
	std::atomic<int> fired{0}, ready{0};
	std::vector<std::thread> th;
	for(int r = 0; r < nreaders; r++) th.emplace_back([&, r] {
		auto agent = new frg::qs_agent<M>(&dom);     // goes online; never taken offline (offline() while deferred is illegal)
		Rng rg{seed * 131 + r + 1};
		ready.fetch_add(1);
		while(!stop.load(std::memory_order_relaxed)) {
			Obj *o = cur.load(std::memory_order_acquire);
			long a = o->a;                            // plain reads inside the read-side section
			if(rg.next() % 4 == 0) std::this_thread::yield();
			long b = o->b;
			if(b != 2 * a) fail(88, "reader saw an object after its grace period ended");
			agent->quiescent_state();
		}
	});
	while(ready.load() < nreaders) std::this_thread::yield();
	auto ag = new frg::qs_agent<M>(&dom);
	std::vector<Retire> nodes(updates);
	for(long i = 1; i <= updates; i++) {
		Obj *old = cur.exchange(&objs[i], std::memory_order_acq_rel);
		nodes[i - 1].victim = old; nodes[i - 1].fired = &fired; nodes[i - 1].on_grace_period = on_grace;
		ag->await_barrier(&nodes[i - 1]);
		// run() before the agent's own quiescent_state(): the callback's happens-before edge must come from run() itself
		ag->run();
		ag->quiescent_state();
	}
	long spins = 0;
	while(fired.load(std::memory_order_relaxed) < updates) {
		ag->run(); ag->run(); ag->quiescent_state();
		if(++spins > 200000000) fail(89, "callbacks did not fire although every agent keeps passing quiescent states");
	}
	stop.store(true, std::memory_order_relaxed);
	for(auto &t : th) t.join();
	printf("{\"mode\":\"qs\",\"readers\":%d,\"updates\":%ld,\"fired\":%d}\n", nreaders, updates, fired.load());
	return 0;
}

int main(int argc, char **argv) {
	std::string mode = argc > 1 ? argv[1] : "spin";
	if(mode == "spin") {
		std::string kind = argc > 2 ? argv[2] : "ticket";
		int n = argc > 3 ? atoi(argv[3]) : 4; long it = argc > 4 ? atol(argv[4]) : 20000;
		return kind == "ticket" ? run_spin<frg::ticket_spinlock>(n, it) : run_spin<frg::simple_spinlock>(n, it);
	}
	if(mode == "radix") return run_radix(argc > 2 ? atoi(argv[2]) : 3, argc > 3 ? atol(argv[3]) : 4000, argc > 4 ? strtoull(argv[4], nullptr, 10) : 1);
	if(mode == "qs") return run_qs(argc > 2 ? atoi(argv[2]) : 3, argc > 3 ? atol(argv[3]) : 2000, argc > 4 ? strtoull(argv[4], nullptr, 10) : 1);
	return 2;
}

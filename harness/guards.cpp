// Harness for C12 (guards): replays operation histories on the real unique_lock / shared_lock /
// qs lock_guard over a counting mutex that records every call. Executes and records only.
#include "common/trace.hpp"
#include <new>
#include <frg/mutex.hpp>
#include <frg/qs.hpp>

using namespace vt;

static std::vector<std::vector<long long>> g_calls;

struct VMutex {
	int id = 0;
	void lock() { g_calls.push_back({1, id}); }
	void unlock() { g_calls.push_back({2, id}); }
	void lock_shared() { g_calls.push_back({3, id}); }
	void unlock_shared() { g_calls.push_back({4, id}); }
};

static const int NS = 3, NM = 2;
static VMutex mtx[NM + 1];

template<class Guard, bool Full>
struct Runner {
	alignas(Guard) unsigned char store[NS + 1][sizeof(Guard)];
	bool alive[NS + 1] = {};
	Guard &at(int g) { return *reinterpret_cast<Guard *>(store[g]); }

	void obs(Ev &ev) {
		std::vector<std::vector<long long>> o;
		for(int g = 1; g <= NS; g++) {
			std::vector<long long> r;
			if constexpr (Full) {
				if(alive[g]) {
					r = {1, at(g).is_locked() ? 1 : 0};
					for(int m = 1; m <= NM; m++) r.push_back(at(g).protects(&mtx[m]) ? 1 : 0);
				} else r = {0, 0, 0, 0};
			} else {
				// qs::lock_guard has no observers; report liveness only
				r = {alive[g] ? 1 : 0};
			}
			o.push_back(r);
		}
		ev.raw("obs", jarr2(o));
	}

	void step(const std::string &op, int g, int x) {
		g_calls.clear();
		if(op == "ExternalLock") {
			// the program itself acquires the mutex (to hand it to an adopting guard); not a guard call
			if constexpr (std::is_same_v<Guard, frg::shared_lock<VMutex>>) mtx[x].lock_shared(); else mtx[x].lock();
			g_calls.clear();
		} else if(op == "ConstructLocked") { new (store[g]) Guard(mtx[x]); alive[g] = true; }
		else if(op == "Lock") at(g).lock();
		else if(op == "Unlock") at(g).unlock();
		else if(op == "Destroy") { at(g).~Guard(); alive[g] = false; }
		else if constexpr (Full) {
			if(op == "Default") { new (store[g]) Guard(); alive[g] = true; }
			else if(op == "ConstructDeferred") { new (store[g]) Guard(frg::dont_lock, mtx[x]); alive[g] = true; }
			else if(op == "ConstructAdopted") { new (store[g]) Guard(frg::adopt_lock, mtx[x]); alive[g] = true; }
			else if(op == "MoveConstruct") { new (store[g]) Guard(std::move(at(x))); alive[g] = true; }
			else if(op == "MoveAssign") { at(g) = std::move(at(x)); }
			else if(op == "Swap") { swap(at(g), at(x)); }
		}
		Ev ev("Op");
		ev.str("op", op).i("g", g).i("x", x).raw("calls", jarr2(g_calls));
		obs(ev);
		ev.emit();
	}

	void cleanup() {
		// not part of the history: release what is left so the next execution starts clean
		for(int g = 1; g <= NS; g++) if(alive[g]) { try { at(g).~Guard(); } catch(...) {} alive[g] = false; }
	}
};

struct Op { std::string op; int g, x; };

// mirror used only to *generate* legal random histories (the trace spec judges, not the mirror)
struct Mirror {
	struct S { bool alive = false; int m = 0; bool owns = false; } s[NS + 1];
	int acq[NM + 1] = {}, ext[NM + 1] = {};
	std::string kind;
	bool excl() const { return kind != "shared"; }
	bool legal(const Op &o) {
		auto &a = s[o.g];
		if(kind == "qs" && !(o.op == "ConstructLocked" || o.op == "Lock" || o.op == "Unlock" || o.op == "Destroy")) return false;
		if(o.op == "Default" || o.op == "ConstructDeferred") return !a.alive;
		if(o.op == "ConstructLocked") return !a.alive && (!excl() || acq[o.x] == 0);
		if(o.op == "ConstructAdopted") return !a.alive && ext[o.x] > 0;
		if(o.op == "ExternalLock") return ext[o.x] < 2 && (!excl() || acq[o.x] == 0);
		if(o.op == "Lock") return a.alive && !a.owns && a.m && (!excl() || acq[a.m] == 0);
		if(o.op == "Unlock") return a.alive && a.owns;
		if(o.op == "Destroy") return a.alive;
		if(o.op == "MoveConstruct") return !a.alive && s[o.x].alive && o.g != o.x;
		if(o.op == "MoveAssign" || o.op == "Swap") return a.alive && s[o.x].alive;
		return false;
	}
	void apply(const Op &o) {
		auto &a = s[o.g];
		if(o.op == "Default") a = {true, 0, false};
		else if(o.op == "ConstructDeferred") a = {true, o.x, false};
		else if(o.op == "ConstructLocked") { a = {true, o.x, true}; acq[o.x]++; }
		else if(o.op == "ConstructAdopted") { a = {true, o.x, true}; ext[o.x]--; }
		else if(o.op == "ExternalLock") { acq[o.x]++; ext[o.x]++; }
		else if(o.op == "Lock") { a.owns = true; acq[a.m]++; }
		else if(o.op == "Unlock") { a.owns = false; acq[a.m]--; }
		else if(o.op == "Destroy") { if(a.owns) acq[a.m]--; a = {}; }
		else if(o.op == "MoveConstruct") { a = s[o.x]; s[o.x] = {true, 0, false}; }
		else if(o.op == "MoveAssign") { if(o.g != o.x) { if(a.owns) acq[a.m]--; a = s[o.x]; s[o.x] = {true, 0, false}; } }
		else if(o.op == "Swap") std::swap(a, s[o.x]);
	}
};

template<class Guard, bool Full>
void run_one(const std::string &kind, const std::vector<Op> &h) {
	Ev("Reset").str("kind", kind).i("slots", NS).i("mutexes", NM).emit();
	Runner<Guard, Full> r;
	try {
		for(auto &o : h) r.step(o.op, o.g, o.x);
	} catch(Panic &) {}
	r.cleanup();
}

void dispatch(const std::string &kind, const std::vector<Op> &h) {
	if(kind == "unique") run_one<frg::unique_lock<VMutex>, true>(kind, h);
	else if(kind == "shared") run_one<frg::shared_lock<VMutex>, true>(kind, h);
	else run_one<frg::lock_guard<VMutex>, false>(kind, h);
}

int main(int argc, char **argv) {
	Args a(argc, argv);
	install_terminate();
	for(int m = 0; m <= NM; m++) mtx[m].id = m;
	std::string kind = a.str("kind", "unique");
	long long from = a.num("from", 0);
	if(a.has("random")) {
		long long n = a.num("random", 100), len = a.num("len", 40);
		Rng rng(a.num("seed", 1));
		static const char *names[] = {"Default", "ConstructLocked", "ConstructDeferred", "ConstructAdopted", "ExternalLock",
			"Lock", "Unlock", "Destroy", "MoveConstruct", "MoveAssign", "Swap"};
		for(long long i = 0; i < n; i++) {
			Mirror mir; mir.kind = kind;
			std::vector<Op> h;
			for(int tries = 0; (long long)h.size() < len && tries < len * 30; tries++) {
				Op o{names[rng.below(11)], (int)rng.below(NS) + 1, 0};
				if(o.op == "MoveConstruct" || o.op == "MoveAssign" || o.op == "Swap") o.x = rng.below(NS) + 1;
				else if(o.op.rfind("Construct", 0) == 0 || o.op == "ExternalLock") o.x = rng.below(NM) + 1;
				if(o.op == "ExternalLock") o.g = 0;
				if(o.op != "ExternalLock" && o.g == 0) continue;
				if(o.op == "ExternalLock" ? mir.legal(Op{o.op, 1, o.x}) && true : mir.legal(o)) {
					if(o.op == "ExternalLock") { Op t = o; t.g = 1; mir.apply(Op{"ExternalLock", 1, o.x}); }
					else mir.apply(o);
					h.push_back(o);
				}
			}
			if(i >= from) dispatch(kind, h);
			hist_done(i);
		}
		return 0;
	}
	std::string line;
	long long idx = 0;
	while(read_line(line)) {
		if(line.empty()) continue;
		if(idx >= from) {
			J j = parse_json(line);
			std::vector<Op> h;
			for(size_t i = 0; i < j.size(); i++) h.push_back({j[i].string("op"), (int)j[i].num("g"), (int)j[i].num("x")});
			dispatch(kind, h);
		}
		hist_done(idx);
		idx++;
	}
	return 0;
}

// Harness for the ledger of C16, owners without an abstract model of their own:
// unique_ptr, unique_memory, string, list (destroyed while non-empty), tuple, rcu_radixtree.
// Replays operation sequences; the events come from Tracked (element lifetimes) and VAlloc (blocks).
#include <new>
#include "common/trace.hpp"
#include "common/valloc.hpp"
#include "common/tracked.hpp"
#include <frg/unique.hpp>
#include <frg/allocation.hpp>
#include <frg/string.hpp>
#include <frg/list.hpp>
#include <frg/tuple.hpp>
#include <frg/rcu_radixtree.hpp>

using namespace vt;

struct Op { std::string name; int d; };

template<class H>
struct Two {
	alignas(H) unsigned char store[2][sizeof(H)];
	bool alive[2] = {false, false};
	H &at(int d) { return *reinterpret_cast<H *>(store[d - 1]); }
	template<class... A> void make(int d, A &&... a) { if(alive[d - 1]) at(d).~H(); new (store[d - 1]) H(std::forward<A>(a)...); alive[d - 1] = true; }
	void kill() { for(int d = 2; d >= 1; d--) if(alive[d - 1]) { at(d).~H(); alive[d - 1] = false; } }
};

static long long g_counter;

static void run_unique_ptr(const std::vector<Op> &h) {
	using P = frg::unique_ptr<Tracked, VAlloc>;
	Two<P> s; s.make(1, VAlloc{}); s.make(2, VAlloc{});
	for(auto &o : h) {
		Ev("OpBegin").str("name", o.name).i("d", o.d).emit();
		int d = o.d, q = 3 - o.d;
		if(o.name == "make") s.at(d) = frg::make_unique<Tracked>(VAlloc{}, ++g_counter);
		else if(o.name == "move_construct") s.make(d, std::move(s.at(q)));
		else if(o.name == "move_assign") s.at(d) = std::move(s.at(q));
		else if(o.name == "reset_null") s.at(d).reset(nullptr);
		else if(o.name == "reset_new") { VAlloc a; s.at(d).reset(frg::construct<Tracked>(a, ++g_counter)); }
		else if(o.name == "release") { Tracked *p = s.at(d).release(); VAlloc a; frg::destruct(a, p); }
	}
	s.kill();
}

static void run_unique_memory(const std::vector<Op> &h) {
	using M = frg::unique_memory<VAlloc>;
	static VAlloc alloc;
	Two<M> s; s.make(1); s.make(2);
	for(auto &o : h) {
		Ev("OpBegin").str("name", o.name).i("d", o.d).emit();
		int d = o.d, q = 3 - o.d;
		if(o.name == "make") s.at(d) = M(alloc, 24 + 8 * d);
		else if(o.name == "move_construct") s.make(d, std::move(s.at(q)));
		else if(o.name == "move_assign") s.at(d) = std::move(s.at(q));
		else if(o.name == "drop") s.at(d) = M();
	}
	s.kill();
}

static void run_string(const std::vector<Op> &h) {
	using S = frg::string<VAlloc>;
	Two<S> s; s.make(1); s.make(2, "seed");
	for(auto &o : h) {
		Ev("OpBegin").str("name", o.name).i("d", o.d).emit();
		int d = o.d, q = 3 - o.d;
		if(o.name == "cstr") s.at(d) = S("hello");
		else if(o.name == "copy_construct") s.make(d, s.at(q));
		else if(o.name == "move_construct") s.make(d, std::move(s.at(q)));
		else if(o.name == "assign") s.at(d) = s.at(q);
		else if(o.name == "resize_up") s.at(d).resize(s.at(d).size() + 3);
		else if(o.name == "resize_down") s.at(d).resize(s.at(d).size() / 2);
		else if(o.name == "push_back") s.at(d).push_back('x');
		else if(o.name == "plus") s.at(d) = s.at(d) + frg::string_view(s.at(q).data(), s.at(q).size());
		else if(o.name == "plus_char") s.at(d) = s.at(d) + 'y';
		else if(o.name == "append") s.at(d) += frg::string_view(s.at(q).data(), s.at(q).size());
		else if(o.name == "from_view") { char *raw = (char *)malloc(3); memcpy(raw, "abc", 3); s.make(d, frg::string_view(raw, 3)); free(raw); }
	}
	s.kill();
}

static void run_list(const std::vector<Op> &h) {
	using L = frg::list<Tracked, VAlloc>;
	alignas(L) unsigned char store[sizeof(L)];
	L *l = new (store) L();
	for(auto &o : h) {
		Ev("OpBegin").str("name", o.name).i("d", o.d).emit();
		if(o.name == "emplace") l->emplace_back(++g_counter);
		else if(o.name == "pop_front") l->pop_front();
	}
	l->~L();     // possibly while non-empty
}

static void run_tuple(const std::vector<Op> &h) {
	using T = frg::tuple<Tracked, long long, Tracked>;
	Two<T> s;
	addrs().add_pseudo(s.store, sizeof s.store, 1001);
	s.make(1, Tracked(1), 2ll, Tracked(3)); s.make(2, Tracked(4), 5ll, Tracked(6));
	for(auto &o : h) {
		Ev("OpBegin").str("name", o.name).i("d", o.d).emit();
		int d = o.d, q = 3 - o.d;
		if(o.name == "make") s.make(d, Tracked(++g_counter), 7ll, Tracked(++g_counter));
		else if(o.name == "copy_construct") s.make(d, s.at(q));
		else if(o.name == "move_construct") s.make(d, std::move(s.at(q)));
		else if(o.name == "copy_assign") s.at(d) = s.at(q);
		else if(o.name == "move_assign") s.at(d) = std::move(s.at(q));
	}
	s.kill();
}

static void run_radix(const std::vector<Op> &h) {
	using R = frg::rcu_radixtree<Tracked, VAlloc>;
	alignas(R) unsigned char store[sizeof(R)];
	R *r = new (store) R();
	static const uint64_t keys[4] = {0, 0x10, 0x11, 0xF000000000000000ull};
	for(auto &o : h) {
		Ev("OpBegin").str("name", o.name).i("d", o.d).emit();
		uint64_t k = keys[o.d];
		if(o.name == "insert") r->insert(k, ++g_counter);
		else if(o.name == "find_or_insert") r->find_or_insert(k, ++g_counter);
		else if(o.name == "erase") {
			// the erased value is never destroyed (readers may still hold it, DESIGN.md): exempt it
			Tracked *p = r->find(k);
			r->erase(k);
			if(p) Ev("Exempt").raw("a", jarr(addrs().of(p))).emit();
		}
	}
	r->~R();
}

int main(int argc, char **argv) {
	Args a(argc, argv);
	install_terminate();
	std::string kind = a.str("kind", "unique_ptr");
	long long from = a.num("from", 0);
	ledger_on() = true;
	std::string line; long long idx = 0;
	while(read_line(line)) {
		if(line.empty()) continue;
		if(idx >= from) {
			J j = parse_json(line);
			std::vector<Op> h;
			for(size_t i = 0; i < j.size(); i++) h.push_back({j[i].string("name"), (int)j[i].num("d")});
			blocks().reset(); addrs().reset(); g_counter = 0;
			Ev("Reset").str("kind", kind).str("elem", "tracked").emit();
			blocks().log_events = true;
			try {
				if(kind == "unique_ptr") run_unique_ptr(h);
				else if(kind == "unique_memory") run_unique_memory(h);
				else if(kind == "string") run_string(h);
				else if(kind == "list") run_list(h);
				else if(kind == "tuple") run_tuple(h);
				else if(kind == "radix") run_radix(h);
				Ev("OwnerGone").i("live_blocks", (long long)blocks().live.size()).i("bad_frees", blocks().bad).emit();
			} catch(Panic &) {}
			blocks().log_events = false;
		}
		hist_done(idx); idx++;
	}
	return 0;
}

// Harness for C08: the real frg::pairing_heap. Replays push/pop/remove histories and records the
// complete hook structure after each call.
#include "common/trace.hpp"
#include <frg/intrusive.hpp>
#include <frg/pairing_heap.hpp>
#include <memory>

using namespace vt;

struct Node { int id = 0; long prio = 0; frg::pairing_heap_hook<Node> hook; };
struct Cmp { bool operator()(const Node *a, const Node *b) const { return a->prio < b->prio; } };
using Heap = frg::pairing_heap<Node, frg::locate_member<Node, frg::pairing_heap_hook<Node>, &Node::hook>, Cmp>;

struct Op { std::string op; int e; };
static int id_of(Node *n) { return n ? n->id : 0; }

static void run_hist(const std::vector<long> &prio, const std::vector<Op> &h, bool lastonly) {
	int n = (int)prio.size();
	// raw storage: hooks of abandoned (panicked) executions must not run their asserting destructors
	std::vector<Node *> nodes(n + 1, nullptr);
	for(int e = 1; e <= n; e++) { nodes[e] = new Node(); nodes[e]->id = e; nodes[e]->prio = prio[e - 1]; }
	Heap *heap = new Heap();
	{ std::vector<long long> p(prio.begin(), prio.end()); Ev("Reset").i("n", n).raw("prio", jarr(p)).emit(); }
	bool ok = true;
	try {
		for(size_t i = 0; i < h.size(); i++) {
			const Op &o = h[i];
			Ev ev("Op");
			ev.str("op", o.op).i("x", o.e).i("top_before", id_of(heap->top()));
			if(o.op == "push") heap->push(nodes[o.e]);
			else if(o.op == "pop") heap->pop();
			else heap->remove(nodes[o.e]);
			bool chk = !lastonly || i + 1 == h.size();
			ev.i("chk", chk ? 1 : 0).i("top", id_of(heap->top())).i("empty", heap->empty() ? 1 : 0);
			if(chk) {
				std::vector<long long> child(n), back(n), sib(n);
				for(int e = 1; e <= n; e++) { child[e - 1] = id_of(nodes[e]->hook.child); back[e - 1] = id_of(nodes[e]->hook.backlink); sib[e - 1] = id_of(nodes[e]->hook.sibling); }
				ev.raw("child", jarr(child)).raw("backlink", jarr(back)).raw("sibling", jarr(sib));
			}
			ev.emit();
		}
		// drain so that the asserting destructors of heap and hooks can run (part of the contract:
		// a removed element's hook is reset - the hook destructor asserts exactly that)
		while(!heap->empty()) heap->pop();
		delete heap;
		for(int e = 1; e <= n; e++) delete nodes[e];
		Ev("Destroyed").emit();
	} catch(Panic &) { ok = false; }
	(void)ok;
}

static std::vector<long> parse_list(const std::string &s) {
	std::vector<long> v; size_t p = 0;
	while(p < s.size()) { size_t e = s.find(',', p); if(e == std::string::npos) e = s.size(); v.push_back(atol(s.substr(p, e - p).c_str())); p = e + 1; }
	return v;
}

int main(int argc, char **argv) {
	Args a(argc, argv);
	install_terminate();
	long long from = a.num("from", 0);
	bool lastonly = a.has("lastonly");
	if(a.has("random")) {
		long long cnt = a.num("random", 10), len = a.num("len", 300);
		int n = a.num("n", 80); long pspace = a.num("pspace", 10);
		for(long long i = 0; i < cnt; i++) {
			Rng rng(a.num("seed", 1) * 4099 + i);
			std::vector<long> prio;
			int pm = rng.below(3);
			for(int e = 0; e < n; e++) prio.push_back(pm == 0 ? (long)rng.below(pspace) : pm == 1 ? e : n - e);
			std::vector<bool> in(n + 1, false); std::vector<int> members; std::vector<Op> h;
			for(long long s = 0; s < len; s++) {
				int c = rng.below(100);
				if((members.empty() || c < 50) && (int)members.size() < n) {
					int e; do { e = rng.below(n) + 1; } while(in[e]);
					in[e] = true; members.push_back(e); h.push_back({"push", e});
				} else if(members.empty()) continue;
				else if(c < 72) {
					// pop: the generator must know which element leaves, so only when the maximum is unique
					long best = -1; int who = 0, ties = 0;
					for(int e : members) { if(prio[e - 1] > best) { best = prio[e - 1]; who = e; ties = 1; } else if(prio[e - 1] == best) ties++; }
					if(ties != 1) continue;
					h.push_back({"pop", 0});
					for(size_t k = 0; k < members.size(); k++) if(members[k] == who) { members.erase(members.begin() + k); break; }
					in[who] = false;
				} else {
					size_t k = rng.below(members.size()); int e = members[k];
					members.erase(members.begin() + k); in[e] = false; h.push_back({"remove", e});
				}
			}
			if(i >= from) run_hist(prio, h, false);
			hist_done(i);
		}
		return 0;
	}
	std::vector<long> prio = parse_list(a.str("prio", "1,2,3"));
	std::string line; long long idx = 0;
	while(read_line(line)) {
		if(line.empty()) continue;
		if(idx >= from) {
			J j = parse_json(line);
			std::vector<Op> h;
			for(size_t i = 0; i < j.size(); i++) h.push_back({j[i].string("op"), (int)j[i].num("e")});
			run_hist(prio, h, lastonly);
		}
		hist_done(idx); idx++;
	}
	return 0;
}

// Whole-call conformance harness for the QS domain (C11): a single-threaded driver runs one API call of the real
// qs_domain / qs_agent at a time and logs the PRIVATE protocol state after every call, so that TLC can check that the
// net effect of each call is the corresponding action of spec/Apalache/QsInd.tla and that every state the code reaches
// satisfies its inductive invariant (the invariant Apalache proves inductive for an unbounded period counter).
// History line: [{"op":"online|offline|qs|await|run","a":agent,"n":node}, ...]; --random N generates long legal runs.
#define private public
#include <frg/qs.hpp>
#undef private
#include "common/trace.hpp"

using namespace vt;

struct NoMutex { void lock() {} void unlock() {} };
using Dom = frg::qs_domain<NoMutex>;
using Agent = frg::qs_agent<NoMutex>;

struct Op { std::string op; int a, n; };
struct Node : frg::qs_node { int id; int owner; };
static std::vector<std::pair<int, int>> g_fired;
static void on_grace(frg::qs_node *q) { auto n = static_cast<Node *>(q); g_fired.push_back({n->owner, n->id}); }

struct World {
	Dom *dom; std::vector<Agent *> ag; std::vector<Node *> nodes; int NA, NN;
	World(int na, int nn) : NA(na), NN(nn) {
		dom = new Dom();
		ag.assign(na + 1, nullptr); nodes.assign(nn + 1, nullptr);
		for(int n = 1; n <= nn; n++) { nodes[n] = new Node(); nodes[n]->id = n; nodes[n]->owner = 0; nodes[n]->on_grace_period = on_grace; }
	}
	bool online(int a) const { return ag[a] && ag[a]->_acked_qs_counter != 0; }
	void state(Ev &ev) {
		std::vector<long long> acked, deferred, target;
		for(int a = 1; a <= NA; a++) { acked.push_back(ag[a] ? (long long)ag[a]->_acked_qs_counter : 0); deferred.push_back(ag[a] && ag[a]->_qs_deferred ? 1 : 0); }
		for(int n = 1; n <= NN; n++) target.push_back((long long)nodes[n]->_target_qs_counter);
		ev.i("ctr", (long long)dom->_qs_counter.load()).i("desired", (long long)dom->_desired_qs_counter.load()).i("num", dom->_num_agents)
		  .i("toAck", dom->_agents_to_ack.load()).raw("acked", jarr(acked)).raw("deferred", jarr(deferred)).raw("target", jarr(target));
	}
	// the documented preconditions of the API (the trace specification checks them again)
	bool legal(const Op &o) {
		if(o.a < 1 || o.a > NA) return false;
		if(o.op == "online") return !online(o.a);
		if(!online(o.a)) return false;
		if(o.op == "offline") {
			if(ag[o.a]->_qs_deferred) return false;
			for(int n = 1; n <= NN; n++) if(nodes[n]->_target_qs_counter && nodes[n]->owner == o.a) return false;   // leaves no callback behind
			return true;
		}
		if(o.op == "await") return o.n >= 1 && o.n <= NN && nodes[o.n]->_target_qs_counter == 0;
		return o.op == "qs" || o.op == "run";
	}
	void exec(const Op &o) {
		if(o.op == "online") { if(!ag[o.a]) ag[o.a] = new Agent(dom); else ag[o.a]->online(); }
		else if(o.op == "offline") ag[o.a]->offline();
		else if(o.op == "qs") ag[o.a]->quiescent_state();
		else if(o.op == "await") { nodes[o.n]->owner = o.a; ag[o.a]->await_barrier(nodes[o.n]); }
		else if(o.op == "run") {
			g_fired.clear();
			ag[o.a]->run();
		}
	}
};

static void run_hist(int na, int nn, const std::vector<Op> &h) {
	World w(na, nn);
	{ Ev ev("Reset"); ev.i("agents", na).i("nodes", nn); w.state(ev); ev.emit(); }
	try {
		for(auto &o : h) {
			if(!w.legal(o)) { Ev("Skip").str("op", o.op).i("a", o.a).i("n", o.n).emit(); continue; }
			w.exec(o);
			if(o.op == "run") {
				// one spec step per callback, in the order they fired; the state is logged with the last one / the return
				for(auto &f : g_fired) Ev("Cb").i("a", f.first).i("n", f.second).emit();
			}
			Ev ev("W"); ev.str("op", o.op).i("a", o.a).i("n", o.n); w.state(ev); ev.emit();
		}
	} catch(Panic &) {}
}

int main(int argc, char **argv) {
	Args a(argc, argv);
	install_terminate();
	int na = a.num("agents", 3), nn = a.num("nodes", 2);
	long long from = a.num("from", 0);
	if(a.has("random")) {
		long long cnt = a.num("random", 10), len = a.num("len", 300);
		for(long long i = 0; i < cnt; i++) {
			Rng rng(a.num("seed", 1) * 104729 + i);
			std::vector<Op> h;
			static const char *ops[] = {"online", "offline", "qs", "qs", "qs", "await", "run", "run"};
			for(long long s = 0; s < len; s++) h.push_back({ops[rng.below(8)], (int)rng.below(na) + 1, (int)rng.below(nn) + 1});
			if(i >= from) run_hist(na, nn, h);
			hist_done(i);
		}
		return 0;
	}
	std::string line; long long idx = 0;
	while(read_line(line)) {
		if(line.empty()) continue;
		if(idx >= from) {
			J j = parse_json(line);
			std::vector<Op> h;
			for(size_t i = 0; i < j.size(); i++) h.push_back({j[i].string("op"), (int)j[i].num("a"), (int)j[i].num("n")});
			run_hist(na, nn, h);
		}
		hist_done(idx); idx++;
	}
	return 0;
}

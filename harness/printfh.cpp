// Harness for C19 (printf / fmt / logger chunking) and the printf and fmt parts of C20.
// Runs frg::printf_format + do_printf_* into a byte sink, and glibc snprintf on the same call
// (reference for my own specification where ISO C defines the result).
#include <new>
#include <cstdarg>
#include <climits>
#include <tuple>
#include "common/trace.hpp"
// every fetch of a variadic argument by the library is counted (C20: none beyond those supplied)
static long long g_fetches;
#undef va_arg
#define va_arg(ap, T) (g_fetches++, __builtin_va_arg(ap, T))
#include <frg/printf.hpp>
#include <frg/cmdline.hpp>
#include <frg/array.hpp>
#include <frg/formatting.hpp>
#include <frg/logging.hpp>
#include <frg/string.hpp>

using namespace vt;

// ---------------------------------------------------------------- counting va_arg for C20

struct OutputLimit {};
struct ByteSink {
	std::vector<long long> bytes;
	size_t limit = 1 << 20;
	long long total = 0, hard_limit = -1;     // hard_limit: stop absurd widths (parser inputs) by unwinding
	void append(char c) { total++; if(hard_limit >= 0 && total > hard_limit) throw OutputLimit{}; if(bytes.size() < limit) bytes.push_back((unsigned char)c); }
	void append(const char *s) { while(*s) append(*s++); }
	void append(const char *s, size_t n) { for(size_t i = 0; i < n; i++) append(s[i]); }
};

struct Agent {
	ByteSink *sink; frg::va_struct *vsp;
	frg::expected<frg::format_error> operator()(char c) { sink->append(c); return frg::success; }
	frg::expected<frg::format_error> operator()(const char *c, size_t n) { sink->append(c, n); return frg::success; }
	frg::expected<frg::format_error> operator()(char t, frg::format_options opts, frg::printf_size_mod szmod) {
		switch(t) {
		case 'c': case 'p': case 's': frg::do_printf_chars(*sink, t, opts, szmod, vsp); break;
		case 'd': case 'i': case 'o': case 'x': case 'X': case 'b': case 'B': case 'u': frg::do_printf_ints(*sink, t, opts, szmod, vsp); break;
		case 'f': case 'F': case 'g': case 'G': case 'e': case 'E': frg::do_printf_floats(*sink, t, opts, szmod, vsp); break;
		default:
			// an agent may simply ignore a conversion it does not know; the parser has to stay inside the
			// format string all the same
			break;
		}
		return frg::success;
	}
};

static int frg_vformat(ByteSink &sink, const char *fmt, ...) {
	va_list args; va_start(args, fmt);
	frg::va_struct vs; frg::arg arg_list[NL_ARGMAX + 1];
	vs.arg_list = arg_list;
	va_copy(vs.args, args);
	auto res = frg::printf_format(Agent{&sink, &vs}, fmt, &vs);
	va_end(args);
	return res ? 1 : 0;
}
static std::vector<long long> glibc_vformat(const char *fmt, ...) {
	va_list args; va_start(args, fmt);
	std::vector<char> buf(4096);
	int n = vsnprintf(buf.data(), buf.size(), fmt, args);
	va_end(args);
	std::vector<long long> v; for(int i = 0; i < n && i < 4095; i++) v.push_back((unsigned char)buf[i]);
	return v;
}

struct Arg { std::string t; long long v; unsigned long long u; std::string s; };

// typed variadic dispatch: each argument is passed with exactly the C type the directive expects
template<class F, class... Ts>
static void dispatch(const std::vector<Arg> &args, size_t i, F &&f, Ts... acc) {
	if(i == args.size()) { f(acc...); return; }
	if constexpr (sizeof...(Ts) < 3) {
		const Arg &a = args[i];
		if(a.t == "int") dispatch(args, i + 1, f, acc..., (int)a.v);
		else if(a.t == "uint") dispatch(args, i + 1, f, acc..., (unsigned int)a.u);
		else if(a.t == "long") dispatch(args, i + 1, f, acc..., (long)a.v);
		else if(a.t == "ulong") dispatch(args, i + 1, f, acc..., (unsigned long)a.u);
		else if(a.t == "llong") dispatch(args, i + 1, f, acc..., (long long)a.v);
		else if(a.t == "ullong") dispatch(args, i + 1, f, acc..., (unsigned long long)a.u);
		else if(a.t == "str") dispatch(args, i + 1, f, acc..., (const char *)a.s.c_str());
		else if(a.t == "ptr") dispatch(args, i + 1, f, acc..., (void *)(uintptr_t)a.u);
		else if(a.t == "wstr") {
			// the case's own text as a wide string (kept alive for the duration of the call)
			static std::vector<std::wstring> keep; if(keep.size() > 64) keep.clear();
			keep.emplace_back(a.s.begin(), a.s.end());
			if(a.s.empty() && a.v == -1) dispatch(args, i + 1, f, acc..., (const wchar_t *)L"wide");
			else dispatch(args, i + 1, f, acc..., (const wchar_t *)keep.back().c_str());
		}
	}
}

static std::vector<long long> bytes_of(const std::string &s) { std::vector<long long> v; for(unsigned char c : s) v.push_back(c); return v; }

// ---------------------------------------------------------------- logger
struct ChunkSink {
	static std::vector<std::string> *chunks;
	void operator()(const char *msg) { chunks->push_back(msg); }
};
std::vector<std::string> *ChunkSink::chunks;
template<size_t Limit>
static void logger_case(const std::string &text, int pieces) {
	std::vector<std::string> chunks; ChunkSink::chunks = &chunks;
	frg::stack_buffer_logger<ChunkSink, Limit> logger;
	{
		auto item = logger();
		// the text arrives in `pieces` strings plus single characters
		size_t per = pieces ? text.size() / pieces + 1 : text.size();
		for(size_t off = 0; off < text.size(); off += per) {
			std::string part = text.substr(off, per);
			if((off / per) % 2) for(char c : part) item << frg::char_fmt(c);   /* exercises append(char) */ else item << part.c_str();
		}
		item << frg::endlog;
	}
	std::string ch = "[";
	for(size_t i = 0; i < chunks.size(); i++) { if(i) ch += ","; ch += jarr(bytes_of(chunks[i])); }
	Ev("Logger").i("limit", Limit).raw("text", jarr(bytes_of(text))).raw("chunks", ch + "]").emit();
}

int main(int argc, char **argv) {
	Args a(argc, argv);
	install_terminate();
	long long from = a.num("from", 0);
	std::string mode = a.str("mode", "printf");
	std::string line; long long idx = 0;
	while(read_line(line)) {
		if(line.empty()) continue;
		if(idx >= from) {
			J j = parse_json(line);
			Ev("Reset").str("mode", mode).emit();
			try {
				if(mode == "printf") {
					std::string fmt = j.string("fmt");
					std::vector<Arg> args;
					const J *ja = j.get("args");
					for(size_t i = 0; ja && i < ja->size(); i++) { Arg g; g.t = (*ja)[i][0].s; g.s = (*ja)[i][1].s; g.v = strtoll(g.s.c_str(), nullptr, 10); g.u = strtoull(g.s.c_str(), nullptr, 10); args.push_back(g); }
					ByteSink sink; int ok = 0; std::vector<long long> ref;
					sink.hard_limit = 1 << 20;      // no defined directive of the generated space prints a megabyte: unwind instead of running for hours
					try { dispatch(args, 0, [&](auto... xs) { ok = frg_vformat(sink, fmt.c_str(), xs...); }); }
					catch(OutputLimit &) { ok = 0; }
					dispatch(args, 0, [&](auto... xs) { ref = glibc_vformat(fmt.c_str(), xs...); });
					Ev ev("Case");
					ev.str("fmt", fmt).raw("d", j.get("d") ? [&] { // echo the directive record verbatim
						size_t p = line.find("\"d\":"); size_t q = line.rfind('}'); return line.substr(p + 4, q - p - 4); }() : "{}");
					ev.raw("out", jarr(sink.bytes)).raw("ref", jarr(ref)).i("ok", ok).i("defined", j.num("defined", 1)).emit();
				} else if(mode == "fmt") {
					// frg::fmt with two integer arguments and one string argument
					std::string f = j.string("fmt");
					long long x = j.num("x"), y = j.num("y");
					std::string sarg = j.string("s");
					ByteSink sink;
					char *exact = (char *)malloc(f.size() ? f.size() : 1); memcpy(exact, f.data(), f.size());
					frg::format(frg::fmt(frg::string_view(exact, f.size()), x, y, sarg.c_str()), sink);
					free(exact);
					Ev("Fmt").raw("fmt", jarr(bytes_of(f))).i("x", x).i("y", y).raw("s", jarr(bytes_of(sarg))).raw("out", jarr(sink.bytes)).emit();
					if(j.num("types", 0)) {
						// the same format with the two integers passed as every other integer type fmt() has an overload for
						// (values are small and non-negative, so every type holds them)
						auto once = [&](auto a0, auto a1, const char *tn) {
							ByteSink sk;
							char *ex = (char *)malloc(f.size() ? f.size() : 1); memcpy(ex, f.data(), f.size());
							frg::format(frg::fmt(frg::string_view(ex, f.size()), a0, a1, sarg.c_str()), sk);
							free(ex);
							Ev("Fmt").raw("fmt", jarr(bytes_of(f))).i("x", x).i("y", y).raw("s", jarr(bytes_of(sarg))).raw("out", jarr(sk.bytes)).str("types", tn).emit();
						};
						once((int)x, (unsigned int)y, "int,uint");
						once((long)x, (unsigned long)y, "long,ulong");
						once((unsigned long long)x, (short)y, "ullong,short");
						once((unsigned short)x, (unsigned char)y, "ushort,uchar");
					}
				} else if(mode == "pf_fuzz") {
					// printf_format on an arbitrary byte string placed in an exact-size, NUL-terminated heap buffer
					std::vector<long long> in; const J *jb = j.get("in"); for(size_t i = 0; i < jb->size(); i++) in.push_back((*jb)[i].n);
					char *buf = (char *)malloc(in.size() + 1); for(size_t i = 0; i < in.size(); i++) buf[i] = (char)in[i]; buf[in.size()] = 0;
					std::vector<Arg> args; const J *ja = j.get("args");
					for(size_t i = 0; ja && i < ja->size(); i++) { Arg g; g.t = (*ja)[i][0].s; g.s = (*ja)[i][1].s; g.v = strtoll(g.s.c_str(), nullptr, 10); g.u = strtoull(g.s.c_str(), nullptr, 10); args.push_back(g); }
					long long positional = j.num("positional");
					ByteSink sink; sink.hard_limit = 200000; sink.limit = 64;
					const char *outcome = "completed"; int ok = 1;
					g_fetches = 0;
					// positional mode: every argument is a pointer that is valid for any conversion the format may name:
					// read as a narrow string it is "s", read as a wide string (%ls) it is L"st"
					static const wchar_t wsafe[] = L"st";
					static const char *safe = (const char *)wsafe;
					try {
						if(positional) ok = frg_vformat(sink, buf, safe, safe, safe, safe, safe, safe, safe, safe, safe);
						else dispatch(args, 0, [&](auto... xs) { ok = frg_vformat(sink, buf, xs...); });
						if(!ok) outcome = "agent-error";
					} catch(OutputLimit &) { outcome = "output-limit"; }
					catch(Panic &) { outcome = "assertion"; }
					Ev("Parsed").str("parser", "printf").raw("in", jarr(in)).str("outcome", outcome).i("fetches", g_fetches).i("supplied", positional ? 9 : (long long)args.size()).emit();
					free(buf);
				} else if(mode == "fmt_fuzz") {
					std::vector<long long> in; const J *jb = j.get("in"); for(size_t i = 0; i < jb->size(); i++) in.push_back((*jb)[i].n);
					char *buf = (char *)malloc(in.size() ? in.size() : 1); for(size_t i = 0; i < in.size(); i++) buf[i] = (char)in[i];
					ByteSink sink; sink.hard_limit = 200000; const char *outcome = "completed";
					try { frg::format(frg::fmt(frg::string_view(buf, in.size()), 10ll, 200ll, "s"), sink); } catch(Panic &) { outcome = "assertion"; }
					catch(OutputLimit &) { outcome = "output-limit"; }
					Ev("Parsed").str("parser", "fmt").raw("in", jarr(in)).str("outcome", outcome).i("fetches", 0).i("supplied", 0).raw("out", jarr(sink.bytes)).emit();
					free(buf);
				} else if(mode == "cmdline") {
					std::vector<long long> in; const J *jb = j.get("in"); for(size_t i = 0; i < jb->size(); i++) in.push_back((*jb)[i].n);
					char *buf = (char *)malloc(in.size() ? in.size() : 1); for(size_t i = 0; i < in.size(); i++) buf[i] = (char)in[i];
					bool flag = false, flag2 = false; frg::string_view sv{}, sv2{}; uint32_t num = 0; bool dupflag = false;
					long long table = j.num("table");
					const char *outcome = "completed";
					try {
						if(table == 0) {
							frg::array args = { frg::option{"a", frg::store_true(flag)}, frg::option{"aa", frg::as_string_view(sv)}, frg::option{"1", frg::as_number(num)},
								frg::option{"1", frg::store_true(flag2)} };     // a second flag, reached only if the first flag's mismatch lets the search go on
							frg::parse_arguments(frg::string_view(buf, in.size()), args);
						} else {
							// duplicates and an empty option name
							frg::array args = { frg::option{"a", frg::store_true(flag)}, frg::option{"a", frg::store_true(dupflag)}, frg::option{"", frg::store_true(flag2)}, frg::option{"a", frg::as_string_view(sv2)} };
							frg::parse_arguments(frg::string_view(buf, in.size()), args);
						}
					} catch(Panic &) { outcome = "assertion"; }
					// option targets may only point into the command line
					auto inside = [&](frg::string_view v) { return v.size() == 0 || (v.data() >= buf && v.data() + v.size() <= buf + in.size()); };
					Ev ev("Parsed"); ev.str("parser", "cmdline").raw("in", jarr(in)).str("outcome", outcome).i("fetches", 0).i("supplied", 0).i("table", table)
						.i("flag", flag ? 1 : 0).i("flag2", flag2 ? 1 : 0).i("dup", dupflag ? 1 : 0).i("num", (long long)num).i("targets_inside", inside(sv) && inside(sv2) ? 1 : 0);
					std::vector<long long> svb; if(inside(sv)) for(size_t i = 0; i < sv.size(); i++) svb.push_back((unsigned char)sv.data()[i]);
					std::vector<long long> svb2; if(inside(sv2)) for(size_t i = 0; i < sv2.size(); i++) svb2.push_back((unsigned char)sv2.data()[i]);
					ev.raw("sv", jarr(svb)).raw("sv2", jarr(svb2)).emit();
					free(buf);
				} else if(mode == "tonumber") {
					std::vector<long long> in; const J *jb = j.get("in"); for(size_t i = 0; i < jb->size(); i++) in.push_back((*jb)[i].n);
					char *buf = (char *)malloc(in.size() ? in.size() : 1); for(size_t i = 0; i < in.size(); i++) buf[i] = (char)in[i];
					frg::string_view v(buf, in.size());
					const char *outcome = "completed";
					std::string ri = "none", ru = "none", rl = "none", rul = "none";
					try {
						auto a = v.to_number<int>(); if(a) ri = std::to_string(*a);
						auto b = v.to_number<unsigned>(); if(b) ru = std::to_string(*b);
						auto c = v.to_number<int64_t>(); if(c) rl = std::to_string(*c);
						auto d = v.to_number<uint64_t>(); if(d) rul = std::to_string(*d);
					} catch(Panic &) { outcome = "assertion"; }
					Ev("Parsed").str("parser", "to_number").raw("in", jarr(in)).str("outcome", outcome).i("fetches", 0).i("supplied", 0)
						.raw("int", ri == "none" ? "[]" : jarr(bytes_of(ri))).raw("uint", ru == "none" ? "[]" : jarr(bytes_of(ru)))
						.raw("int64", rl == "none" ? "[]" : jarr(bytes_of(rl))).raw("uint64", rul == "none" ? "[]" : jarr(bytes_of(rul))).emit();
					free(buf);
				} else if(mode == "logger") {
					std::string text = j.string("text"); int pieces = j.num("pieces"); long long limit = j.num("limit");
					if(limit == 2) logger_case<2>(text, pieces); else if(limit == 3) logger_case<3>(text, pieces);
					else if(limit == 8) logger_case<8>(text, pieces); else logger_case<128>(text, pieces);
				}
			} catch(Panic &) {}
		}
		hist_done(idx); idx++;
	}
	return 0;
}

// Harness for C19 (printf / fmt / logger chunking) and the printf and fmt parts of C20.
// Runs frg::printf_format + do_printf_* into a byte sink, and glibc snprintf on the same call
// (reference for my own specification where ISO C defines the result).
#include <new>
#include <cstdarg>
#include <climits>
#include <tuple>
#include "common/trace.hpp"
#include <frg/printf.hpp>
#include <frg/formatting.hpp>
#include <frg/logging.hpp>
#include <frg/string.hpp>

using namespace vt;

// ---------------------------------------------------------------- counting va_arg for C20
static long long g_fetches, g_supplied;

struct ByteSink {
	std::vector<long long> bytes;
	size_t limit = 1 << 20;
	long long total = 0;
	void append(char c) { total++; if(bytes.size() < limit) bytes.push_back((unsigned char)c); }
	void append(const char *s) { while(*s) append(*s++); }
	void append(const char *s, size_t n) { for(size_t i = 0; i < n; i++) append(s[i]); }
};

struct Agent {
	ByteSink *sink; frg::va_struct *vsp;
	frg::expected<frg::format_error> operator()(char c) { sink->append(c); return frg::success; }
	frg::expected<frg::format_error> operator()(const char *c, size_t n) { sink->append(c, n); return frg::success; }
	frg::expected<frg::format_error> operator()(char t, frg::format_options opts, frg::printf_size_mod szmod) {
		switch(t) {
		case 'c': case 'p': case 's': frg::do_printf_chars(*sink, t, opts, szmod, vsp); break;
		case 'd': case 'i': case 'o': case 'x': case 'X': case 'b': case 'B': case 'u': frg::do_printf_ints(*sink, t, opts, szmod, vsp); break;
		case 'f': case 'F': case 'g': case 'G': case 'e': case 'E': frg::do_printf_floats(*sink, t, opts, szmod, vsp); break;
		default:
			// an agent has to do something with a conversion it does not know: report it
			return frg::format_error::agent_error;
		}
		return frg::success;
	}
};

static int frg_vformat(ByteSink &sink, const char *fmt, ...) {
	va_list args; va_start(args, fmt);
	frg::va_struct vs; frg::arg arg_list[NL_ARGMAX + 1];
	vs.arg_list = arg_list;
	va_copy(vs.args, args);
	auto res = frg::printf_format(Agent{&sink, &vs}, fmt, &vs);
	va_end(args);
	return res ? 1 : 0;
}
static std::vector<long long> glibc_vformat(const char *fmt, ...) {
	va_list args; va_start(args, fmt);
	std::vector<char> buf(4096);
	int n = vsnprintf(buf.data(), buf.size(), fmt, args);
	va_end(args);
	std::vector<long long> v; for(int i = 0; i < n && i < 4095; i++) v.push_back((unsigned char)buf[i]);
	return v;
}

struct Arg { std::string t; long long v; unsigned long long u; std::string s; };

// typed variadic dispatch: each argument is passed with exactly the C type the directive expects
template<class F, class... Ts>
static void dispatch(const std::vector<Arg> &args, size_t i, F &&f, Ts... acc) {
	if(i == args.size()) { f(acc...); return; }
	if constexpr (sizeof...(Ts) < 3) {
		const Arg &a = args[i];
		if(a.t == "int") dispatch(args, i + 1, f, acc..., (int)a.v);
		else if(a.t == "uint") dispatch(args, i + 1, f, acc..., (unsigned int)a.u);
		else if(a.t == "long") dispatch(args, i + 1, f, acc..., (long)a.v);
		else if(a.t == "ulong") dispatch(args, i + 1, f, acc..., (unsigned long)a.u);
		else if(a.t == "llong") dispatch(args, i + 1, f, acc..., (long long)a.v);
		else if(a.t == "ullong") dispatch(args, i + 1, f, acc..., (unsigned long long)a.u);
		else if(a.t == "str") dispatch(args, i + 1, f, acc..., (const char *)a.s.c_str());
		else if(a.t == "ptr") dispatch(args, i + 1, f, acc..., (void *)(uintptr_t)a.u);
	}
}

static std::vector<long long> bytes_of(const std::string &s) { std::vector<long long> v; for(unsigned char c : s) v.push_back(c); return v; }

// ---------------------------------------------------------------- logger
struct ChunkSink {
	static std::vector<std::string> *chunks;
	void operator()(const char *msg) { chunks->push_back(msg); }
};
std::vector<std::string> *ChunkSink::chunks;
template<size_t Limit>
static void logger_case(const std::string &text, int pieces) {
	std::vector<std::string> chunks; ChunkSink::chunks = &chunks;
	frg::stack_buffer_logger<ChunkSink, Limit> logger;
	{
		auto item = logger();
		// the text arrives in `pieces` strings plus single characters
		size_t per = pieces ? text.size() / pieces + 1 : text.size();
		for(size_t off = 0; off < text.size(); off += per) {
			std::string part = text.substr(off, per);
			if((off / per) % 2) for(char c : part) item << frg::char_fmt(c);   /* exercises append(char) */ else item << part.c_str();
		}
		item << frg::endlog;
	}
	std::string ch = "[";
	for(size_t i = 0; i < chunks.size(); i++) { if(i) ch += ","; ch += jarr(bytes_of(chunks[i])); }
	Ev("Logger").i("limit", Limit).raw("text", jarr(bytes_of(text))).raw("chunks", ch + "]").emit();
}

int main(int argc, char **argv) {
	Args a(argc, argv);
	install_terminate();
	long long from = a.num("from", 0);
	std::string mode = a.str("mode", "printf");
	std::string line; long long idx = 0;
	while(read_line(line)) {
		if(line.empty()) continue;
		if(idx >= from) {
			J j = parse_json(line);
			Ev("Reset").str("mode", mode).emit();
			try {
				if(mode == "printf") {
					std::string fmt = j.string("fmt");
					std::vector<Arg> args;
					const J *ja = j.get("args");
					for(size_t i = 0; ja && i < ja->size(); i++) { Arg g; g.t = (*ja)[i][0].s; g.s = (*ja)[i][1].s; g.v = strtoll(g.s.c_str(), nullptr, 10); g.u = strtoull(g.s.c_str(), nullptr, 10); args.push_back(g); }
					ByteSink sink; int ok = 0; std::vector<long long> ref;
					dispatch(args, 0, [&](auto... xs) { ok = frg_vformat(sink, fmt.c_str(), xs...); });
					dispatch(args, 0, [&](auto... xs) { ref = glibc_vformat(fmt.c_str(), xs...); });
					Ev ev("Case");
					ev.str("fmt", fmt).raw("d", j.get("d") ? [&] { // echo the directive record verbatim
						size_t p = line.find("\"d\":"); size_t q = line.rfind('}'); return line.substr(p + 4, q - p - 4); }() : "{}");
					ev.raw("out", jarr(sink.bytes)).raw("ref", jarr(ref)).i("ok", ok).i("defined", j.num("defined", 1)).emit();
				} else if(mode == "fmt") {
					// frg::fmt with two integer arguments and one string argument
					std::string f = j.string("fmt");
					long long x = j.num("x"), y = j.num("y");
					std::string sarg = j.string("s");
					ByteSink sink;
					char *exact = (char *)malloc(f.size() ? f.size() : 1); memcpy(exact, f.data(), f.size());
					frg::format(frg::fmt(frg::string_view(exact, f.size()), x, y, sarg.c_str()), sink);
					free(exact);
					Ev("Fmt").raw("fmt", jarr(bytes_of(f))).i("x", x).i("y", y).raw("s", jarr(bytes_of(sarg))).raw("out", jarr(sink.bytes)).emit();
				} else if(mode == "logger") {
					std::string text = j.string("text"); int pieces = j.num("pieces"); long long limit = j.num("limit");
					if(limit == 2) logger_case<2>(text, pieces); else if(limit == 3) logger_case<3>(text, pieces);
					else if(limit == 8) logger_case<8>(text, pieces); else logger_case<128>(text, pieces);
				}
			} catch(Panic &) {}
		}
		hist_done(idx); idx++;
	}
	return 0;
}

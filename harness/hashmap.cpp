// Harness for C14 (hash_map) and, with --tracked, the lifetime ledger of C16.
#include <new>
#include "common/trace.hpp"
#include "common/valloc.hpp"
#include "common/tracked.hpp"
#include <frg/hash_map.hpp>
#include <algorithm>

using namespace vt;

struct Hasher {
	int mode = 0;
	unsigned int operator()(long long k) const {
		switch(mode) {
		case 0: return (unsigned)k;                      // identity
		case 1: return 7;                                // constant: one chain
		case 2: return (unsigned)(k % 3);                // three chains
		case 3: return (unsigned)(k * 16);               // low entropy modulo powers of two
		case 4: return (unsigned)(k * 20);               // collides modulo 10 and 20 (the first two capacities)
		default: return (unsigned)(k * 2654435761u);     // well spread
		}
	}
};

struct Op { std::string name; long long k; };

static long long checkevery = 1;     // observe all keys after every checkevery-th call only (large key universes)
template<class V>
static void run_one(int mode, long long nkeys, const std::vector<Op> &h, bool lastonly, const char *elem) {
	blocks().reset(); addrs().reset();
	Ev("Reset").i("hash", mode).i("nkeys", nkeys).str("elem", elem).emit();
	blocks().log_events = ledger_on();
	using Map = frg::hash_map<long long, V, Hasher, VAlloc>;
	try {
		alignas(Map) unsigned char store[sizeof(Map)];
		Map *m = new (store) Map(Hasher{mode});
		for(size_t i = 0; i < h.size(); i++) {
			const Op &o = h[i];
			if(ledger_on()) Ev("OpBegin").str("name", o.name).i("d", 1).emit();
			long long res = -1;
			if(o.name == "insert") { if(o.k & 1) { V v(o.k + 100); m->insert(o.k, v); } else m->insert(o.k, V(o.k + 100)); }
			else if(o.name == "index") { V &r = (*m)[o.k]; res = value_of(r); }
			else if(o.name == "index_set") { (*m)[o.k] = V(o.k + 100); res = o.k + 100; }
			else if(o.name == "remove") { auto r = m->remove(o.k); res = r ? value_of(*r) : -1; }
			else if(o.name == "get") { V *p = m->get(o.k); res = p ? value_of(*p) : -1; }
			else if(o.name == "init_list") {
				// construct anew from an initializer list with the keys 0..k-1 (k <= 3)
				using E = frg::tuple<const long long, V>;
				m->~Map();
				if(o.k == 1) m = new (store) Map(Hasher{mode}, {E{0ll, V(100)}});
				else if(o.k == 2) m = new (store) Map(Hasher{mode}, {E{0ll, V(100)}, E{1ll, V(101)}});
				else m = new (store) Map(Hasher{mode}, {E{0ll, V(100)}, E{1ll, V(101)}, E{2ll, V(102)}});
			}
			Ev ev("Op");
			ev.str("name", o.name).i("k", o.k).i("res", res);
			bool chk = (!lastonly && (i % checkevery) == 0) || i + 1 == h.size();
			ev.i("chk", chk ? 1 : 0);
			if(chk) {
				bool lo = ledger_on(); ledger_on() = false;
				std::vector<long long> get, find, cfind;
				const Map &cm = *m;
				for(long long k = 0; k < nkeys; k++) {
					V *p = m->get(k); get.push_back(p ? value_of(*p) : -1);
					auto it = m->find(k); find.push_back(it ? ((*it).template get<0>() == k ? value_of((*it).template get<1>()) : -2) : -1);
					auto ct = cm.find(k); cfind.push_back(ct != cm.end() ? ((*ct).template get<0>() == k ? value_of((*ct).template get<1>()) : -2) : -1);
					// const iteration from the found entry to the end visits at most size() entries, each a present key, none twice
					if(ct != cm.end()) {
						std::vector<long long> seen; size_t steps = 0;
						for(auto it2 = ct; it2 != cm.end() && steps <= m->size() + 1; ++it2, ++steps) seen.push_back((*it2).template get<0>());
						std::sort(seen.begin(), seen.end());
						bool dup = std::adjacent_find(seen.begin(), seen.end()) != seen.end();
						bool ghost = false; for(long long sk : seen) if(!m->get(sk)) ghost = true;
						if(steps > m->size() || dup || ghost) cfind.back() = -3;
					}
				}
				std::vector<std::vector<long long>> iter;
				int guard = 0;
				for(auto it = m->begin(); it != m->end(); ++it) { iter.push_back({(*it).template get<0>(), value_of((*it).template get<1>())}); if(++guard > 100000) break; }
				std::sort(iter.begin(), iter.end());
				ev.raw("get", jarr(get)).raw("find", jarr(find)).raw("cfind", jarr(cfind)).raw("iter", jarr2(iter)).i("size", (long long)m->size()).i("empty", m->empty() ? 1 : 0);
				ledger_on() = lo;
			}
			ev.emit();
		}
		m->~Map();
		Ev("OwnerGone").i("live_blocks", (long long)blocks().live.size()).i("bad_frees", blocks().bad).emit();
	} catch(Panic &) {}
	blocks().log_events = false;
}

int main(int argc, char **argv) {
	Args a(argc, argv);
	install_terminate();
	bool tracked = a.has("tracked");
	ledger_on() = tracked;
	int mode = a.num("hash", 0);
	long long nkeys = a.num("nkeys", 11), from = a.num("from", 0);
	bool lastonly = a.has("lastonly");
	checkevery = a.num("checkevery", 1);
	auto go = [&](const std::vector<Op> &h, long long nk) { if(tracked) run_one<Tracked>(mode, nk, h, lastonly, "tracked"); else run_one<long long>(mode, nk, h, lastonly, "int"); };
	if(a.has("random")) {
		long long cnt = a.num("random", 5), len = a.num("len", 400);
		for(long long i = 0; i < cnt; i++) {
			Rng rng(a.num("seed", 1) * 2953 + i);
			std::vector<bool> present(nkeys, false);
			std::vector<Op> h;
			int phase = 0;
			for(long long s = 0; s < len; s++) {
				long long k = rng.below(nkeys);
				int c = rng.below(100);
				// phases: fill, drain (maps emptied and refilled), mixed
				if((s % (nkeys * 3)) == 0) phase = rng.below(3);
				int pin = phase == 0 ? 70 : phase == 1 ? 15 : 45;
				if(c < pin) { if(!present[k]) { h.push_back({rng.coin() ? "insert" : "index_set", k}); present[k] = true; } else h.push_back({"index", k}); }
				else if(c < pin + 10) { h.push_back({"index", k}); present[k] = true; }
				else if(c < 92) { h.push_back({"remove", k}); present[k] = false; }
				else h.push_back({"get", k});
			}
			if(i >= from) go(h, nkeys);
			hist_done(i);
		}
		return 0;
	}
	std::string line; long long idx = 0;
	while(read_line(line)) {
		if(line.empty()) continue;
		if(idx >= from) {
			J j = parse_json(line);
			std::vector<Op> h;
			for(size_t i = 0; i < j.size(); i++) h.push_back({j[i].string("name"), j[i].num("k")});
			go(h, nkeys);
		}
		hist_done(idx); idx++;
	}
	return 0;
}

// Block-logging allocator: exact-size malloc blocks (ASan red zones make a one-byte overrun
// visible), fill patterns for fresh/freed memory, every call recorded for the lifetime ledger.
#pragma once
#include "trace.hpp"
#include <cstdlib>
#include <cstring>
#include <map>

namespace vt {
struct BlockLog {
	std::map<void *, size_t> live;
	long long allocs = 0, frees = 0, bad = 0;
	bool log_events = false;
	std::map<void *, long long> ids;
	long long next_id = 1;
	void (*on_alloc)(void *, size_t) = nullptr;
	long long id_of(void *p) { auto it = ids.find(p); if(it != ids.end()) return it->second; return ids[p] = next_id++; }
	void reset() { live.clear(); ids.clear(); next_id = 1; allocs = frees = bad = 0; }
};
inline BlockLog &blocks() { static BlockLog b; return b; }

struct VAlloc {
	void *allocate(size_t n) {
		void *p = malloc(n ? n : 1);
		memset(p, 0xAA, n);
		blocks().live[p] = n; blocks().allocs++;
		if(blocks().log_events) Ev("Alloc").i("b", blocks().id_of(p)).i("n", (long long)n).emit();
		if(blocks().on_alloc) blocks().on_alloc(p, n);
		return p;
	}
	void deallocate(void *p, size_t n) {
		if(!p) return;
		auto it = blocks().live.find(p);
		long long known = it == blocks().live.end() ? -1 : (long long)it->second;
		if(blocks().log_events) Ev("Dealloc").i("b", blocks().id_of(p)).i("n", (long long)n).i("known", known).emit();
		if(it == blocks().live.end()) { blocks().bad++; return; }
		memset(p, 0xDD, it->second);
		blocks().live.erase(it); blocks().frees++;
		::free(p);
	}
	void free(void *p) {
		if(!p) return;
		auto it = blocks().live.find(p);
		long long known = it == blocks().live.end() ? -1 : (long long)it->second;
		if(blocks().log_events) Ev("Free").i("b", blocks().id_of(p)).i("known", known).emit();
		if(it == blocks().live.end()) { blocks().bad++; return; }
		memset(p, 0xDD, it->second);
		blocks().live.erase(it); blocks().frees++;
		::free(p);
	}
};
}

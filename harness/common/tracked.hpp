// Lifetime-logging element type for the ledger specification (C16) and the containers (C13/C14).
// Every special member logs (kind, this, source). Addresses are logged as [block, offset] where
// block is a VAlloc block id, a registered pseudo-block (inline storage of an owner) or 0 for
// anything else (temporaries of the harness; then offset is an interned id).
#pragma once
#include "trace.hpp"
#include "valloc.hpp"

namespace vt {

struct AddrSpace {
	struct Range { uintptr_t base; size_t len; long long id; };
	std::vector<Range> pseudo;          // registered non-heap ranges (owner objects with inline storage)
	std::map<uintptr_t, long long> other;
	long long next_other = 1;
	void reset() { pseudo.clear(); other.clear(); next_other = 1; }
	void add_pseudo(const void *p, size_t n, long long id) { pseudo.push_back({(uintptr_t)p, n, id}); }
	std::vector<long long> of(const void *p) {
		uintptr_t a = (uintptr_t)p;
		for(auto &kv : blocks().live) {
			uintptr_t b = (uintptr_t)kv.first;
			if(a >= b && a < b + kv.second) return {blocks().id_of(kv.first), (long long)(a - b)};
		}
		for(auto &r : pseudo) if(a >= r.base && a < r.base + r.len) return {r.id, (long long)(a - r.base)};
		auto it = other.find(a);
		if(it == other.end()) it = other.emplace(a, next_other++).first;
		return {0, it->second};
	}
};
inline AddrSpace &addrs() { static AddrSpace a; return a; }
inline bool &ledger_on() { static bool b = false; return b; }

struct Tracked {
	static const unsigned MAGIC = 0x7AC3ED01u;
	long long v;
	unsigned magic;
	void log(const char *how, const void *src) {
		if(!ledger_on()) return;
		Ev ev("Ctor");
		ev.raw("a", jarr(addrs().of(this))).str("how", how).i("v", v);
		if(src) ev.raw("src", jarr(addrs().of(src)));
		ev.emit();
	}
	Tracked() : v(0), magic(MAGIC) { log("default", nullptr); }
	Tracked(long long x) : v(x), magic(MAGIC) { log("value", nullptr); }
	Tracked(const Tracked &o) : v(o.v), magic(MAGIC) { log("copy", &o); }
	Tracked(Tracked &&o) : v(o.v), magic(MAGIC) { log("move", &o); }
	Tracked &operator=(const Tracked &o) {
		if(ledger_on()) Ev("Assign").raw("a", jarr(addrs().of(this))).raw("src", jarr(addrs().of(&o))).str("how", "copy").emit();
		v = o.v; return *this;
	}
	Tracked &operator=(Tracked &&o) {
		if(ledger_on()) Ev("Assign").raw("a", jarr(addrs().of(this))).raw("src", jarr(addrs().of(&o))).str("how", "move").emit();
		v = o.v; return *this;
	}
	~Tracked() {
		if(ledger_on()) Ev("Dtor").raw("a", jarr(addrs().of(this))).i("magic_ok", magic == MAGIC ? 1 : 0).emit();
		magic = 0xDEADDEAD;
	}
	bool operator==(const Tracked &o) const { return v == o.v; }
	bool operator!=(const Tracked &o) const { return v != o.v; }
};
inline long long value_of(const Tracked &t) { return t.magic == Tracked::MAGIC ? t.v : -777; }
inline long long value_of(long long x) { return x; }
inline long long value_of(int x) { return x; }

} // namespace vt

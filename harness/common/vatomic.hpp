// Atomic-access seam. Two front ends, one back end:
//   (a) function-like macros over the __atomic_* builtins (spinlock.hpp)
//   (b) std::verif_atomic<T>, substituted for std::atomic<T> by `#define atomic verif_atomic`
//       around the #include of qs.hpp / rcu_radixtree.hpp
// Every access is performed for real (seq_cst under the hood is irrelevant: one thread runs at a
// time), logged with the memory order WRITTEN IN THE SOURCE, and followed by a scheduler yield.
#pragma once
#include "trace.hpp"
#include "vsched.hpp"
#include <atomic>
#include <map>
#include <type_traits>

namespace vt {

inline const char *mo_name(int mo) {
	switch(mo) {
	case __ATOMIC_RELAXED: return "rlx";
	case __ATOMIC_CONSUME: return "acq";   // consume is promoted to acquire by every compiler
	case __ATOMIC_ACQUIRE: return "acq";
	case __ATOMIC_RELEASE: return "rel";
	case __ATOMIC_ACQ_REL: return "acqrel";
	default: return "sc";
	}
}
inline int mo_int(std::memory_order m) { return (int)m; }

// variable naming registry (address -> name); unknown addresses get "v<offset>" names relative to a base
struct VarNames {
	std::map<uintptr_t, std::string> names;
	std::vector<std::pair<uintptr_t, std::pair<uintptr_t, std::string>>> ranges;  // base,len -> prefix
	std::string of(const void *p) {
		auto it = names.find((uintptr_t)p);
		if(it != names.end()) return it->second;
		for(auto &r : ranges) if((uintptr_t)p >= r.first && (uintptr_t)p < r.first + r.second.first)
			return r.second.second + "+" + std::to_string((uintptr_t)p - r.first);
		return "?";
	}
	void clear() { names.clear(); ranges.clear(); }
};
inline VarNames &vars() { static VarNames v; return v; }
inline bool &log_accesses() { static bool b = true; return b; }
// current API operation per thread (site = op/var/kind); set by the harness around library calls
inline const char *&cur_op() { static thread_local const char *op = ""; return op; }

template<class V>
inline long long as_ll(V v) {
	if constexpr (std::is_pointer_v<V>) return 0;
	else if constexpr (std::is_integral_v<V> || std::is_enum_v<V>) return (long long)v;
	else return 0;
}

// hook so harnesses can intern pointer values into small ids
inline long long (*&ptr_intern())(const void *) { static long long (*f)(const void *) = nullptr; return f; }
template<class V>
inline long long val_ll(V v) {
	if constexpr (std::is_pointer_v<V>) return ptr_intern() ? ptr_intern()((const void *)v) : (v ? 1 : 0);
	else return as_ll(v);
}

// source position of the access inside the frigg header (set by the std::verif_atomic front end)
struct SrcPos { int line = 0; const char *fn = ""; };
inline SrcPos &src_pos() { static thread_local SrcPos p; return p; }
inline void (*&access_hook())(const void *, const char *) { static void (*f)(const void *, const char *) = nullptr; return f; }
// lets a harness add fields to the access event (e.g. the block an address lives in)
inline void (*&access_decor())(Ev &, const void *, long long) { static void (*f)(Ev &, const void *, long long) = nullptr; return f; }

inline void access_event(const void *addr, const char *kind, int mo, long long val, long long val2, int yield_kind) {
	if(log_accesses()) {
		Ev ev("A");
		ev.i("t", tid()).str("op", cur_op()).str("var", vars().of(addr)).str("k", kind).str("mo", mo_name(mo)).i("val", val);
		if(val2 != -999999) ev.i("new", val2);
		if(src_pos().line) { ev.str("fn", src_pos().fn).i("line", src_pos().line); src_pos().line = 0; }
		if(access_decor()) access_decor()(ev, addr, val);
		ev.emit();
	}
	if(access_hook()) access_hook()(addr, kind);
	seam_yield(yield_kind);
}

template<class T> inline T a_load(const T *p, int mo) {
	T v = __atomic_load_n(p, __ATOMIC_SEQ_CST);
	access_event(p, "load", mo, val_ll(v), -999999, 0);
	return v;
}
template<class T, class V> inline void a_store(T *p, V v, int mo) {
	__atomic_store_n(p, (T)v, __ATOMIC_SEQ_CST);
	access_event(p, "store", mo, val_ll((T)v), -999999, 1);
}
template<class T, class V> inline T a_fetch_add(T *p, V v, int mo) {
	T old = __atomic_fetch_add(p, v, __ATOMIC_SEQ_CST);
	access_event(p, "rmw", mo, val_ll(old), val_ll((T)(old + v)), 1);
	return old;
}
template<class T, class V> inline T a_fetch_sub(T *p, V v, int mo) {
	T old = __atomic_fetch_sub(p, v, __ATOMIC_SEQ_CST);
	access_event(p, "rmw", mo, val_ll(old), val_ll((T)(old - v)), 1);
	return old;
}
template<class T, class V> inline T a_exchange(T *p, V v, int mo) {
	T old = __atomic_exchange_n(p, (T)v, __ATOMIC_SEQ_CST);
	access_event(p, "rmw", mo, val_ll(old), val_ll((T)v), 1);
	return old;
}
template<class T> inline bool a_cas(T *p, T *expected, T desired, int mo_ok, int mo_fail) {
	T exp0 = *expected;
	bool ok = __atomic_compare_exchange_n(p, expected, desired, false, __ATOMIC_SEQ_CST, __ATOMIC_SEQ_CST);
	if(ok) access_event(p, "rmw", mo_ok, val_ll(exp0), val_ll(desired), 1);
	else access_event(p, "casfail", mo_fail, val_ll(*expected), -999999, 0);   // a failed CAS is a load
	return ok;
}
inline void a_pause() { }

} // namespace vt

namespace std {
// stand-in for std::atomic<T> inside the frigg headers (same member API as far as frigg uses it)
#define VT_POS int line_ = __builtin_LINE(), const char *fn_ = __builtin_FUNCTION()
#define VT_SET vt::src_pos().line = line_; vt::src_pos().fn = fn_
template<class T>
struct verif_atomic {
	T v;
	verif_atomic() noexcept = default;
	constexpr verif_atomic(T x) noexcept : v(x) {}
	verif_atomic(const verif_atomic &) = delete;
	verif_atomic &operator=(const verif_atomic &) = delete;
	T load(memory_order mo = memory_order_seq_cst, VT_POS) const { VT_SET; return vt::a_load(&v, (int)mo); }
	void store(T x, memory_order mo = memory_order_seq_cst, VT_POS) { VT_SET; vt::a_store(&v, x, (int)mo); }
	T exchange(T x, memory_order mo = memory_order_seq_cst, VT_POS) { VT_SET; return vt::a_exchange(&v, x, (int)mo); }
	T fetch_add(T x, memory_order mo = memory_order_seq_cst, VT_POS) { VT_SET; return vt::a_fetch_add(&v, x, (int)mo); }
	T fetch_sub(T x, memory_order mo = memory_order_seq_cst, VT_POS) { VT_SET; return vt::a_fetch_sub(&v, x, (int)mo); }
	bool compare_exchange_strong(T &e, T d, memory_order ok, memory_order fail, VT_POS) { VT_SET; return vt::a_cas(&v, &e, d, (int)ok, (int)fail); }
	bool compare_exchange_weak(T &e, T d, memory_order ok, memory_order fail, VT_POS) { VT_SET; return vt::a_cas(&v, &e, d, (int)ok, (int)fail); }
	static int fail_order(memory_order mo) { return (int)mo == __ATOMIC_ACQ_REL ? __ATOMIC_ACQUIRE : ((int)mo == __ATOMIC_RELEASE ? __ATOMIC_RELAXED : (int)mo); }
	bool compare_exchange_strong(T &e, T d, memory_order mo = memory_order_seq_cst, VT_POS) { VT_SET; return vt::a_cas(&v, &e, d, (int)mo, fail_order(mo)); }
	bool compare_exchange_weak(T &e, T d, memory_order mo = memory_order_seq_cst, VT_POS) { VT_SET; return vt::a_cas(&v, &e, d, (int)mo, fail_order(mo)); }
	operator T() const { return vt::a_load(&v, __ATOMIC_SEQ_CST); }
	T operator=(T x) { vt::a_store(&v, x, __ATOMIC_SEQ_CST); return x; }
	T operator++() { return vt::a_fetch_add(&v, 1, __ATOMIC_SEQ_CST) + 1; }
	T operator++(int) { return vt::a_fetch_add(&v, 1, __ATOMIC_SEQ_CST); }
	T operator--() { return vt::a_fetch_sub(&v, 1, __ATOMIC_SEQ_CST) - 1; }
	T operator--(int) { return vt::a_fetch_sub(&v, 1, __ATOMIC_SEQ_CST); }
};
}

// ndjson trace writer + history reader shared by all harnesses.
// The harness executes and records; it never judges.
#pragma once
#include <cstdio>
#include <cstdlib>
#include <cstring>
#include <cstdint>
#include <string>
#include <vector>
#include <map>
#include <unistd.h>
#include <sys/time.h>
#include <exception>

namespace vt {

// ---------------------------------------------------------------- output
struct Out {
	std::string buf;
	void flush() {
		size_t off = 0;
		while(off < buf.size()) {
			ssize_t n = ::write(1, buf.data() + off, buf.size() - off);
			if(n <= 0) break;
			off += n;
		}
		buf.clear();
	}
	~Out() { flush(); }
};
inline Out &out() { static Out o; return o; }

// One event = one line. Built with a tiny streaming JSON builder.
struct Ev {
	std::string s;
	bool first = true;
	explicit Ev(const char *name) { s = "{\"e\":\""; s += name; s += "\""; first = false; }
	void key(const char *k) { s += ",\""; s += k; s += "\":"; }
	Ev &i(const char *k, long long v) { key(k); s += std::to_string(v); return *this; }
	Ev &b(const char *k, bool v) { key(k); s += v ? "true" : "false"; return *this; }
	Ev &str(const char *k, const std::string &v) {
		key(k); s += '"';
		for(unsigned char c : v) {
			if(c == '"' || c == '\\') { s += '\\'; s += (char)c; }
			else if(c < 0x20 || c >= 0x7f) { char t[8]; snprintf(t, sizeof t, "\\u%04x", c); s += t; }
			else s += (char)c;
		}
		s += '"'; return *this;
	}
	Ev &raw(const char *k, const std::string &json) { key(k); s += json; return *this; }
	template<class V> Ev &arr(const char *k, const V &v) {
		key(k); s += '[';
		bool f = true;
		for(auto &x : v) { if(!f) s += ','; f = false; s += std::to_string((long long)x); }
		s += ']'; return *this;
	}
	void emit() {
		s += "}\n";
		out().buf += s;
		// buffered; flushed when large, at the end of every history, and from the sanitizer death
		// callback / fatal-signal handler / terminate handler, so a report lands after the last event
		if(out().buf.size() > (1u << 15)) out().flush();
	}
};

inline std::string jarr(const std::vector<long long> &v) {
	std::string s = "[";
	for(size_t i = 0; i < v.size(); i++) { if(i) s += ','; s += std::to_string(v[i]); }
	return s + "]";
}
inline std::string jarr2(const std::vector<std::vector<long long>> &v) {
	std::string s = "[";
	for(size_t i = 0; i < v.size(); i++) { if(i) s += ','; s += jarr(v[i]); }
	return s + "]";
}

// ---------------------------------------------------------------- panic hook
struct Panic { std::string msg; };
inline bool &panic_armed() { static bool a = true; return a; }

// ---------------------------------------------------------------- minimal JSON reader (histories)
struct J {
	enum K { Null, Num, Str, Arr, Obj, Bool } k = Null;
	long long n = 0;
	std::string s;
	std::vector<J> a;
	std::vector<std::string> ok;   // object keys
	std::vector<J> ov;             // object values
	const J *get(const char *key) const {
		for(size_t i = 0; i < ok.size(); i++) if(ok[i] == key) return &ov[i];
		return nullptr;
	}
	long long num(const char *key, long long d = 0) const { auto p = get(key); return p && (p->k == Num || p->k == Bool) ? p->n : d; }
	std::string string(const char *key, const char *d = "") const { auto p = get(key); return p && p->k == Str ? p->s : d; }
	bool has(const char *key) const { return get(key) != nullptr; }
	size_t size() const { return k == Arr ? a.size() : 0; }
	const J &operator[](size_t i) const { return a[i]; }
};

struct JP {
	const char *p;
	void ws() { while(*p == ' ' || *p == '\t' || *p == '\n' || *p == '\r') p++; }
	J parse() {
		ws(); J j;
		if(*p == '{') {
			j.k = J::Obj; p++; ws();
			if(*p == '}') { p++; return j; }
			for(;;) {
				ws(); J key = parse(); ws();
				if(*p == ':') p++;
				J v = parse(); j.ok.push_back(key.s); j.ov.push_back(std::move(v)); ws();
				if(*p == ',') { p++; continue; }
				if(*p == '}') { p++; break; }
				break;
			}
		} else if(*p == '[') {
			j.k = J::Arr; p++; ws();
			if(*p == ']') { p++; return j; }
			for(;;) {
				j.a.push_back(parse()); ws();
				if(*p == ',') { p++; continue; }
				if(*p == ']') { p++; break; }
				break;
			}
		} else if(*p == '"') {
			j.k = J::Str; p++;
			while(*p && *p != '"') {
				if(*p == '\\' && p[1]) {
					p++;
					if(*p == 'n') j.s += '\n'; else if(*p == 't') j.s += '\t';
					else if(*p == 'u') { unsigned v = 0; sscanf(p + 1, "%4x", &v); j.s += (char)v; p += 4; }
					else j.s += *p;
					p++;
				} else j.s += *p++;
			}
			if(*p == '"') p++;
		} else if(*p == 't') { j.k = J::Bool; j.n = 1; p += 4; }
		else if(*p == 'f') { j.k = J::Bool; j.n = 0; p += 5; }
		else if(*p == 'n') { p += 4; }
		else {
			j.k = J::Num; char *e; j.n = strtoll(p, &e, 10); p = e;
		}
		return j;
	}
};
inline J parse_json(const std::string &s) { JP jp{s.c_str()}; return jp.parse(); }

inline bool read_line(std::string &line) {
	line.clear();
	int c;
	while((c = getchar_unlocked()) != EOF) {
		if(c == '\n') return true;
		line += (char)c;
	}
	return !line.empty();
}

// One history normally takes micro- to milliseconds. A history that runs for a whole minute is a call
// that does not return (e.g. a walk over a structure that became cyclic): it is recorded as an event
// and the process ends; the driver restarts after it.
// The budget is CPU time of the process (ITIMER_PROF), not wall-clock time: a busy machine must not turn a slow run into
// a verdict.  A wall-clock alarm ten times as long is only a backstop for a process that sleeps forever.
inline void arm_watchdog() {
	struct itimerval tv; memset(&tv, 0, sizeof tv); tv.it_value.tv_sec = 60;
	setitimer(ITIMER_PROF, &tv, nullptr);
	alarm(600);
}
inline void hist_done(long long i) { Ev("HistDone").i("i", i).emit(); out().flush(); arm_watchdog(); }

// ---------------------------------------------------------------- args
struct Args {
	std::map<std::string, std::string> kv;
	Args(int argc, char **argv) {
		for(int i = 1; i < argc; i++) {
			std::string a = argv[i];
			if(a.rfind("--", 0) == 0) {
				if(i + 1 < argc && argv[i + 1][0] != '-') { kv[a.substr(2)] = argv[i + 1]; i++; }
				else kv[a.substr(2)] = "1";
			}
		}
	}
	long long num(const char *k, long long d) const { auto it = kv.find(k); return it == kv.end() ? d : atoll(it->second.c_str()); }
	std::string str(const char *k, const char *d) const { auto it = kv.find(k); return it == kv.end() ? d : it->second; }
	bool has(const char *k) const { return kv.count(k); }
};

// ---------------------------------------------------------------- deterministic RNG for harness drivers
struct Rng {
	uint64_t s;
	explicit Rng(uint64_t seed) : s(seed * 0x9E3779B97F4A7C15ull + 0x1234567) { next(); next(); }
	uint64_t next() { s ^= s << 13; s ^= s >> 7; s ^= s << 17; return s; }
	uint64_t below(uint64_t n) { return n ? next() % n : 0; }
	bool coin(int pct = 50) { return below(100) < (uint64_t)pct; }
};

} // namespace vt

// The library's assertion hook. FRG_ASSERT calls frg_panic and then traps; we record the event and
// unwind to the harness' per-execution handler. If unwinding is impossible (noexcept frame) the
// terminate handler ends the process after flushing; the driver restarts after that history.
extern "C" void frg_panic(const char *msg) {
	vt::Ev("panic").str("msg", msg).emit();
	throw vt::Panic{msg};
}
extern "C" void frg_log(const char *msg) {
	vt::Ev("liblog").str("msg", msg).emit();
}

extern "C" void __sanitizer_set_death_callback(void (*)(void)) __attribute__((weak));
#include <signal.h>
namespace vt {
inline void install_terminate() {
	std::set_terminate([] {
		Ev("terminate").emit();
		out().flush();
		_exit(76);
	});
	if(__sanitizer_set_death_callback) __sanitizer_set_death_callback([] { out().flush(); });
	{
		struct sigaction sa; memset(&sa, 0, sizeof sa);
		sa.sa_handler = [](int) { out().flush(); const char m[] = "{\"e\":\"hang\",\"why\":\"a library call did not return within 60 s of CPU time\"}\n"; (void)!::write(1, m, sizeof m - 1); _exit(74); };
		sigaction(SIGALRM, &sa, nullptr);
		sigaction(SIGPROF, &sa, nullptr);
		arm_watchdog();
	}
	for(int sig : {SIGILL, SIGABRT, SIGFPE, SIGBUS}) {
		struct sigaction sa; memset(&sa, 0, sizeof sa);
		sa.sa_handler = [](int sg) { out().flush(); const char m[] = "fatal signal\n"; (void)!::write(2, m, sizeof m - 1); _exit(70 + (sg & 7)); };
		sigaction(sig, &sa, nullptr);
	}
}
}

// Instrumented mutex cooperating with the scheduler: logs Lock/Unlock, knows its holder, detects
// self-deadlock by inspection (no timeouts). A blocked lock() yields without an event.
#pragma once
#include "trace.hpp"
#include "vsched.hpp"

namespace vt {
struct Deadlock {};
struct VMutex {
	int holder = -1;      // thread index or -1
	const char *name = "m";
	void lock() {
		int me = tid();
		if(holder == me) {
			Ev("deadlock").i("t", me).str("m", name).str("why", "lock() on a mutex the calling thread already holds").emit();
			throw Abort{};
		}
		while(holder != -1) { if(Sched::unwinding()) throw Abort{}; seam_yield(0); }
		holder = me;
		Ev("Lock").i("t", me).str("m", name).emit();
		seam_yield(1);
	}
	void unlock() {
		int me = tid();
		Ev("Unlock").i("t", me).str("m", name).i("held", holder == me ? 1 : 0).emit();
		if(holder == me) holder = -1;
		seam_yield(1, false);   // often called from a destructor: must not throw
	}
};
}

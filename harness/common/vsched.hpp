// Cooperative scheduler: real std::threads, exactly one runs at a time (baton passing).
// A thread hands the baton back immediately AFTER each seam event (atomic access, mutex call,
// policy callback, ...). One scheduler step = "run thread t through exactly one seam event".
#pragma once
#include "trace.hpp"
#include <thread>
#include <mutex>
#include <condition_variable>
#include <atomic>
#include <functional>
#include <vector>

namespace vt {

struct Abort {};   // thrown inside a thread at a seam point when the execution is being torn down

struct Sched {
	// baton: turn == -1 controller runs, otherwise thread `turn` runs. Hand-over through one atomic
	// word with C++20 wait/notify (spins briefly, then futex) - no lock convoy.
	std::atomic<int> turn{-1};
	std::atomic<bool> aborting{false};
	std::vector<std::thread> th;
	std::vector<char> done;
	std::vector<int> idle_loads;   // consecutive load-only steps without any shared-state change
	long long progress = 0;        // bumped on every store / rmw / lock-state change
	std::vector<long long> seen_progress;
	int n = 0;
	bool active = false;

	static Sched *&cur() { static Sched *s = nullptr; return s; }
	static int &self() { static thread_local int id = -1; return id; }
	// set once Abort has been thrown in this thread: further seam points (e.g. an unlock() run by a
	// destructor during unwinding) must not throw again
	static bool &unwinding() { static thread_local bool u = false; return u; }
	// teardown reached this thread at a seam point that must not throw (an unlock() called from a
	// destructor): the Abort is delivered at its next throwing seam point instead
	static bool &pending_abort() { static thread_local bool u = false; return u; }

	void wait_turn(int me) {
		for(;;) {
			int t = turn.load(std::memory_order_acquire);
			if(t == me) return;
			for(int i = 0; i < 4000; i++) {
				if(turn.load(std::memory_order_acquire) == me) return;
				__builtin_ia32_pause();
			}
			t = turn.load(std::memory_order_acquire);
			if(t == me) return;
			turn.wait(t, std::memory_order_acquire);
		}
	}
	void give(int to) { turn.store(to, std::memory_order_release); turn.notify_all(); }

	std::function<void(int)> body_;
	std::atomic<bool> quit{false};

	// worker threads persist across executions (thread creation under ASan costs ~0.3 ms each)
	void start(int nthreads, std::function<void(int)> body) {
		n = nthreads; done.assign(64, 0); idle_loads.assign(64, 0); seen_progress.assign(64, -1);
		aborting = false; turn = -1; progress = 0; active = true; body_ = std::move(body);
		cur() = this;
		while((int)th.size() < n) {
			int t = (int)th.size();
			th.emplace_back([this, t] {
				self() = t;
				for(;;) {
					wait_turn(t);
					if(quit.load()) return;
					unwinding() = false; pending_abort() = false;
					try { if(!aborting.load()) body_(t); } catch(Abort &) {} catch(Panic &) {}
					done[t] = 1;
					give(-1);
				}
			});
		}
	}
	~Sched() {
		quit = true;
		for(size_t t = 0; t < th.size(); t++) { give((int)t); th[t].join(); }
	}

	// controller: let thread t run through one seam event. returns false if t is already finished
	bool step(int t) {
		if(t < 0 || t >= n || done[t]) return false;
		give(t);
		wait_turn(-1);
		return true;
	}

	// called by a thread right after a seam event; kind: 0 load-like (no state change), 1 state change
	void yield(int kind, bool can_throw = true) {
		int t = self();
		if(t < 0 || !active || unwinding()) return;
		if(pending_abort()) { if(can_throw) { unwinding() = true; throw Abort{}; } return; }
		if(kind) { progress++; idle_loads[t] = 0; }
		else {
			if(seen_progress[t] == progress) idle_loads[t]++; else idle_loads[t] = 1;
			seen_progress[t] = progress;
		}
		give(-1);
		wait_turn(t);
		if(aborting.load()) {
			if(can_throw) { unwinding() = true; throw Abort{}; }
			pending_abort() = true;
		}
	}

	bool all_done() { for(int t = 0; t < n; t++) if(!done[t]) return false; return true; }
	bool is_done(int t) { return done[t]; }
	// every unfinished thread has made >= k load-only steps since the last change of shared state
	bool stalled(int k = 3) {
		bool any = false;
		for(int t = 0; t < n; t++) if(!done[t]) { any = true; if(idle_loads[t] < k || seen_progress[t] != progress) return false; }
		return any;
	}

	void finish() {   // tear down: unfinished threads unwind with Abort at their next seam point
		aborting = true;
		for(int t = 0; t < n; t++) {
			while(!done[t]) { give(t); wait_turn(-1); }
		}
		active = false; cur() = nullptr;
	}
};

inline void seam_yield(int kind, bool can_throw = true) { if(Sched::cur()) Sched::cur()->yield(kind, can_throw); }
inline int tid() { return Sched::self() < 0 ? 0 : Sched::self(); }

} // namespace vt

// Harness for C11: the real qs_domain/qs_agent/qs_node under the cooperative scheduler.
// std::atomic inside qs.hpp is replaced by the logging shim; the mutex is the scheduler-aware VMutex.
#include <stdint.h>
#include <atomic>
#include <type_traits>
#include <utility>
#include <new>
#include "common/trace.hpp"
#include "common/vsched.hpp"
#include "common/vatomic.hpp"
#include "common/vmutex.hpp"
#include <frg/list.hpp>
#include <frg/macros.hpp>
#include <frg/utility.hpp>
#include <sanitizer/asan_interface.h>

#define atomic verif_atomic
#define private public
#include <frg/qs.hpp>
#undef private
#undef atomic

#include <deque>

using namespace vt;
using Domain = frg::qs_domain<VMutex>;
using Agent = frg::qs_agent<VMutex>;

static const int MAXN = 32;
struct NodeBox { frg::qs_node node; int id; int poisoned; };
static NodeBox *g_nodes[MAXN + 1];

static void on_grace(frg::qs_node *n) {
	NodeBox *b = reinterpret_cast<NodeBox *>(n);   // node is the first member
	Ev("Callback").i("a", tid() + 1).i("n", b->id).emit();
	// from now on the node belongs to the user again (typically it is freed here):
	// any later access by the library is a sanitizer report
	ASAN_POISON_MEMORY_REGION(&b->node, sizeof(b->node));
	b->poisoned = 1;
	seam_yield(1);
}

struct OpReq { std::string op; int n; };
static long long g_drain_every = 16;

struct Exec {
	Domain *dom;
	int nagents;
	std::vector<std::deque<OpReq>> queue;
	std::vector<Agent *> agent;       // constructed lazily by the first online (qs_agent's ctor goes online)
	std::vector<std::aligned_storage_t<sizeof(Agent), alignof(Agent)>> store;
	bool scripted;
	std::vector<Rng> rngs;
	int budget;
	int nnodes;
	std::vector<int> node_used;

	void unpoison_nodes() {
		for(int i = 1; i <= nnodes; i++) if(g_nodes[i] && g_nodes[i]->poisoned) {
			ASAN_UNPOISON_MEMORY_REGION(&g_nodes[i]->node, sizeof(g_nodes[i]->node));
			g_nodes[i]->poisoned = 0;
		}
	}

	// A schedule computed for the modelled algorithm may ask for a call whose documented precondition
	// does not hold in the state the real code is in (only possible after the implementation drifted
	// from the model). Such a call is the driver's mistake, not the library's: it is skipped.
	bool legal(int t, const OpReq &r) {
		Agent *ag = agent[t];
		bool online = ag && ag->_acked_qs_counter != 0;
		if(r.op == "online") return !online;
		if(r.op == "offline") return online && !ag->_qs_deferred;
		if(r.op == "qs" || r.op == "barrier") return online;
		if(r.op == "await") return online && g_nodes[r.n] && g_nodes[r.n]->node._target_qs_counter == 0 && !node_used[r.n];
		if(r.op == "run") return ag != nullptr;
		return false;
	}

	void do_op(int t, const OpReq &r) {
		int a = t + 1;
		if(scripted) {
			if(!legal(t, r)) { Ev("SkippedIllegalCall").i("a", a).str("op", r.op).emit(); seam_yield(0); return; }
			if(r.op == "await") node_used[r.n] = 1;
		}
		if(r.op == "online") {
			Ev("OnlineCall").i("a", a).emit();
			cur_op() = "online";
			if(!agent[t]) agent[t] = new (&store[t]) Agent(dom); else agent[t]->online();
			cur_op() = "";
			Ev("OnlineRet").i("a", a).emit();
		} else if(r.op == "offline") {
			Ev("OfflineCall").i("a", a).emit();
			cur_op() = "offline"; agent[t]->offline(); cur_op() = "";
			Ev("OfflineRet").i("a", a).emit();
		} else if(r.op == "qs") {
			Ev("QsCall").i("a", a).i("deferred", agent[t]->_qs_deferred ? 1 : 0).emit();
			cur_op() = "qs"; agent[t]->quiescent_state(); cur_op() = "";
			Ev("QsRet").i("a", a).emit();
		} else if(r.op == "await") {
			Ev("AwaitCall").i("a", a).i("n", r.n).emit();
			cur_op() = "await"; agent[t]->await_barrier(&g_nodes[r.n]->node); cur_op() = "";
			Ev("AwaitRet").i("a", a).i("n", r.n).emit();
		} else if(r.op == "run") {
			Ev("RunCall").i("a", a).emit();
			cur_op() = "run"; agent[t]->run(); cur_op() = "";
			{	// the nodes still queued anywhere (their target is cleared when run() takes them out of the queue)
				std::vector<long long> pend;
				for(int n = 1; n <= nnodes; n++) if(g_nodes[n] && !g_nodes[n]->poisoned && g_nodes[n]->node._target_qs_counter) pend.push_back(n);
				Ev("RunRet").i("a", a).raw("pend", jarr(pend)).emit();
			}
		} else if(r.op == "barrier") {
			Ev("BarrierCall").i("a", a).emit();
			cur_op() = "barrier"; agent[t]->quiescent_barrier(); cur_op() = "";
			Ev("BarrierRet").i("a", a).emit();
		}
	}

	// random driver: choose a legal next call from what the agent itself can observe
	bool pick(int t, OpReq &r) {
		Rng &g = rngs[t];
		Agent *ag = agent[t];
		bool online = ag && ag->_acked_qs_counter != 0;
		if(budget_left[t] <= 0) {
			// wind down: leave the domain (offline() is documented as illegal while a period is deferred)
			if(!online) return false;
			if(drain_needed()) { r = drain_op(t); return true; }      // fair drain first
			if(ag->_qs_deferred) {
				// a deferred agent gets out by registering a callback of its own (up to four times: other agents' drain can
				// leave it the last acknowledger again before it has left)
				if(wind_node[t] < 4 && !wind_awaited[t]) { for(int n = 1; n <= nnodes; n++) if(!node_used[n]) { node_used[n] = 1; wind_node[t]++; wind_awaited[t] = 1; r = {"await", n}; return true; } }
				wind_awaited[t] = 0;      // one quiescent state (which resumes the deferred period) before registering again
				r = {"qs", 0}; return true;
			}
			r = {"offline", 0}; return true;
		}
		budget_left[t]--;
		for(int tries = 0; tries < 50; tries++) {
			int k = g.below(100);
			if(!online) { if(joins[t] < 3) { joins[t]++; r = {"online", 0}; return true; } if(ag && !ag->_pending.empty()) { r = {"run", 0}; return true; } return false; }
			if(k < 45) { r = {"qs", 0}; return true; }
			if(k < 65) { r = {"run", 0}; return true; }
			if(k < 80) { for(int n = 1; n <= nnodes - 4 * nagents; n++) if(!node_used[n]) { node_used[n] = 1; r = {"await", n}; return true; } continue; }
			if(k < 88) { if(!ag->_qs_deferred) { r = {"offline", 0}; return true; } continue; }
			if(k < 93 && allow_barrier) { r = {"barrier", 0}; return true; }
		}
		r = {"qs", 0}; return true;
	}
	std::vector<int> budget_left, joins, wind_node, wind_awaited;
	bool allow_barrier = true;

	// ---- fair drain ("with fair agents every callback eventually runs") ------------------------------------------------
	// After the scripted / random part, every online agent keeps passing quiescent states and every online owner keeps
	// calling run() while an ONLINE agent still has a pending callback.  A round is complete when every online agent has
	// finished a quiescent_state() and every online owner a run() since the round began.  By the protocol each round ends
	// a period or starts the next one, a callback needs two periods and one run(): eight complete rounds without the
	// callback firing is starvation (event Starved).  Offline owners are left out (nobody is obliged to run them).
	std::vector<int> qs_in_round, run_in_round, completed, drain_toggle, in_call;
	int rounds = 0; bool starved = false;
	bool is_online(int t) const { return agent[t] && agent[t]->_acked_qs_counter != 0; }
	// (the node an agent registers only to get out of a deferred period before leaving is not waited for)
	bool has_pending(int t) const { return agent[t] && !agent[t]->_pending.empty() && !wind_node[t]; }
	bool drain_needed() const { if(starved) return false; for(int t = 0; t < nagents; t++) if(is_online(t) && has_pending(t)) return true; return false; }
	void note_call(int t, const std::string &op) {
		completed[t]++;
		if(op == "await") { rounds = 0; std::fill(qs_in_round.begin(), qs_in_round.end(), 0); std::fill(run_in_round.begin(), run_in_round.end(), 0); return; }
		if(op == "qs") qs_in_round[t] = 1;
		if(op == "run") run_in_round[t] = 1;
		// participants of a round: every agent that is online or in the middle of a call (e.g. half-way through online():
		// the domain already counts it); an agent whose thread simply has not been scheduled yet makes the round wait
		bool full = false;
		for(int u = 0; u < nagents; u++) if(is_online(u)) full = true;
		for(int u = 0; u < nagents && full; u++) {
			bool part = is_online(u) || (u != t && in_call[u]);
			if(part && (!qs_in_round[u] || (has_pending(u) && !run_in_round[u]))) full = false;
		}
		if(full) {
			rounds++;
			std::fill(qs_in_round.begin(), qs_in_round.end(), 0); std::fill(run_in_round.begin(), run_in_round.end(), 0);
			if(rounds >= 8 && drain_needed()) {
				std::vector<long long> pend;
				for(int n = 1; n <= nnodes; n++) if(g_nodes[n] && !g_nodes[n]->poisoned && g_nodes[n]->node._target_qs_counter) pend.push_back(n);
				Ev("Starved").i("rounds", rounds).raw("pending", jarr(pend)).emit();
				starved = true;
			}
		}
	}
	// the next call of agent t during the drain
	OpReq drain_op(int t) { drain_toggle[t] ^= 1; if(has_pending(t) && drain_toggle[t]) return {"run", 0}; return {"qs", 0}; }
};

static void execute(int nagents, int nnodes, const J *schedule, long long seed, int budget, bool barriers) {
	vars().clear();
	Domain dom;
	dom._mutex.name = "qs";
	vars().names[(uintptr_t)&dom._qs_counter] = "counter";
	vars().names[(uintptr_t)&dom._desired_qs_counter] = "desired";
	vars().names[(uintptr_t)&dom._agents_to_ack] = "toAck";
	Exec ex;
	ex.dom = &dom; ex.nagents = nagents; ex.nnodes = nnodes;
	ex.queue.resize(nagents); ex.agent.assign(nagents, nullptr); ex.store.resize(nagents);
	ex.node_used.assign(nnodes + 1, 0);
	ex.budget_left.assign(nagents, budget); ex.joins.assign(nagents, 0); ex.wind_node.assign(nagents, 0); ex.wind_awaited.assign(nagents, 0);
	ex.allow_barrier = barriers;
	ex.qs_in_round.assign(nagents, 0); ex.run_in_round.assign(nagents, 0); ex.completed.assign(nagents, 0); ex.drain_toggle.assign(nagents, 0); ex.in_call.assign(nagents, 0);
	for(int t = 0; t < nagents; t++) ex.rngs.emplace_back(seed * 131 + t);
	for(int i = 1; i <= nnodes; i++) { g_nodes[i] = new NodeBox(); g_nodes[i]->id = i; g_nodes[i]->poisoned = 0; g_nodes[i]->node.on_grace_period = on_grace; }
	Ev("Reset").i("agents", nagents).i("nodes", nnodes).emit();
	ex.scripted = schedule != nullptr;
	static Sched s;
	s.start(nagents, [&](int t) {
		for(;;) {
			OpReq r;
			if(ex.scripted) {
				while(ex.queue[t].empty()) seam_yield(0);   // parked: the schedule gave this agent no call
				ex.in_call[t] = 1;
				r = ex.queue[t].front(); ex.queue[t].pop_front();
			} else {
				if(!ex.pick(t, r)) break;
				ex.in_call[t] = 1;
			}
			ex.do_op(t, r);
			ex.note_call(t, r.op);
			ex.in_call[t] = 0;
			if(Sched::cur()) Sched::cur()->progress++;   // a completed API call is progress
		}
		Ev("AgentDone").i("a", t + 1).emit();
	});
	if(schedule) {
		for(size_t i = 0; i < schedule->size(); i++) {
			const J &e = (*schedule)[i];
			int t = (int)e.num("a") - 1;
			std::string op = e.string("op");
			if(!op.empty()) ex.queue[t].push_back({op, (int)e.num("n")});
			s.step(t);
		}
		// fair drain after the scripted part: first let every agent finish the call it is in, then whole calls round-robin
		// (tour replays: every g_drain_every-th execution only - the drain multiplies the trace length)
		static long long exec_no = 0;
		bool clean = (exec_no++ % g_drain_every) == 0;
		for(int t = 0; t < nagents && clean; t++) {
			long guard = 0;
			while(!ex.queue[t].empty() || ex.in_call[t]) { s.step(t); if(++guard > 20000 || s.is_done(t)) { clean = false; break; } }
		}
		for(int round = 0; clean && round < 12 && ex.drain_needed(); round++) {
			for(int t = 0; t < nagents && clean; t++) {
				if(!ex.is_online(t)) continue;
				for(int k = 0; k < (ex.has_pending(t) ? 2 : 1) && clean; k++) {
					int before = ex.completed[t];
					ex.queue[t].push_back(ex.drain_op(t));
					long guard = 0;
					while(ex.completed[t] == before) { s.step(t); if(++guard > 20000 || s.is_done(t)) { clean = false; break; } }
				}
			}
		}
	} else {
		Rng rng(seed);
		long long steps = 0; int last = 0;
		while(!s.all_done()) {
			int t = rng.coin(55) ? last : (int)rng.below(nagents);
			if(s.is_done(t)) { t = (int)rng.below(nagents); if(s.is_done(t)) continue; }
			last = t; s.step(t);
			if(++steps > 400000) { Ev("stall").str("why", "step limit").emit(); break; }
			if((steps & 31) == 0 && s.stalled(6)) { Ev("stall").str("why", "every unfinished agent spins or blocks without any change of shared state").emit(); break; }
		}
	}
	bool complete = s.all_done();
	s.finish();
	ex.unpoison_nodes();
	Ev("End").i("complete", complete ? 1 : 0).i("holder", dom._mutex.holder).emit();
	for(int i = 1; i <= nnodes; i++) { delete g_nodes[i]; g_nodes[i] = nullptr; }
}

int main(int argc, char **argv) {
	Args a(argc, argv);
	install_terminate();
	int nagents = a.num("agents", 2), nnodes = a.num("nodes", 2);
	g_drain_every = a.num("drainevery", 16);
	long long from = a.num("from", 0);
	if(a.has("random")) {
		long long n = a.num("random", 10);
		for(long long i = 0; i < n; i++) {
			if(i >= from) execute(nagents, nnodes + 4 * nagents, nullptr, a.num("seed", 1) * 7919 + i, a.num("budget", 12), !a.has("nobarrier"));
			hist_done(i);
		}
		return 0;
	}
	std::string line; long long idx = 0;
	while(read_line(line)) {
		if(line.empty()) continue;
		if(idx >= from) { J j = parse_json(line); execute(nagents, nnodes, &j, 0, 0, true); }
		hist_done(idx); idx++;
	}
	return 0;
}

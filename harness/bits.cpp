// Harness for C18: frg::bitset<N> (many N), frg::array, frg::insertion_sort, and - as an auxiliary
// differential outside the TLA+ claim - the two PRNGs against their reference streams.
#include <new>
#include <random>
#include <array>
#include "common/trace.hpp"
#include <frg/bitset.hpp>
#include <frg/array.hpp>
#include <frg/algorithm.hpp>
#include <frg/random.hpp>
#include <algorithm>

using namespace vt;

struct Op { std::string name; long long p, q, k; std::vector<long long> bits; };

static unsigned long long to_ull(const std::vector<long long> &bits) { unsigned long long v = 0; for(auto b : bits) if(b >= 0 && b < 64) v |= 1ull << b; return v; }

// each bitset lives alone in an exact-size heap block between two guard blocks: a write outside the
// object is an ASan report, a write at or beyond bit N is read back through the raw words
template<size_t N>
struct BitRunner {
	using BS = frg::bitset<N>;
	BS *a, *b;
	BitRunner() { a = new (malloc(sizeof(BS))) BS(); b = new (malloc(sizeof(BS))) BS(); }
	~BitRunner() { free(a); free(b); }
	static std::vector<long long> positions(const BS &x) { std::vector<long long> v; for(size_t i = 0; i < N; i++) if(x.test(i)) v.push_back(i); return v; }
	static long long tail_clean(const BS &x) {
		const uint64_t *w = reinterpret_cast<const uint64_t *>(&x);
		size_t words = (N + 63) / 64;
		if(N % 64 == 0) return 1;
		return (w[words - 1] >> (N % 64)) == 0 ? 1 : 0;
	}
	long long apply(const Op &o) {
		BS &A = *a, &B = *b;
		if(o.name == "construct") { A.~BS(); memset((void *)a, 0xAA, sizeof(BS)); new (a) BS(to_ull(o.bits)); }
		else if(o.name == "construct_b") { B.~BS(); memset((void *)b, 0xAA, sizeof(BS)); new (b) BS(to_ull(o.bits)); }
		else if(o.name == "set") { if(o.k != 0 && (o.p & 1)) A.set(o.p); else A.set(o.p, o.k != 0); }     // also through the default argument
		else if(o.name == "set_all") A.set();
		else if(o.name == "reset") A.reset(o.p);
		else if(o.name == "reset_all") A.reset();
		else if(o.name == "flip") A.flip(o.p);
		else if(o.name == "flip_all") A.flip();
		else if(o.name == "ref_assign_bool") A[o.p] = (o.k != 0);
		else if(o.name == "ref_assign_ref") A[o.p] = A[o.q];
		else if(o.name == "ref_flip") A[o.p].flip();
		else if(o.name == "ref_not") return (~A[o.p]) ? 1 : 0;
		else if(o.name == "and") A &= B;
		else if(o.name == "or") A |= B;
		else if(o.name == "xor") A ^= B;
		else if(o.name == "not") A = ~A;
		else if(o.name == "shl") A <<= o.k;
		else if(o.name == "shr") A >>= o.k;
		else if(o.name == "swap_roles") std::swap(a, b);
		return 0;
	}
	void run(const std::vector<Op> &h) {
		Ev("Reset").str("kind", "bitset").i("N", N).emit();
		for(auto &o : h) {
			long long res = apply(o);
			BS &A = *a, &B = *b;
			Ev ev("Op");
			ev.str("name", o.name).i("p", o.p).i("q", o.q).i("k", o.k).raw("bits", jarr(o.bits)).i("res", res);
			ev.raw("a", jarr(positions(A))).raw("b", jarr(positions(B))).i("count", (long long)A.count()).i("any", A.any() ? 1 : 0).i("all", A.all() ? 1 : 0)
			  .i("none", A.none() ? 1 : 0).i("eq", A == B ? 1 : 0).i("tail", tail_clean(A) & tail_clean(B)).i("size", (long long)A.size());
			// non-mutating operators
			ev.i("binops", ((A & B) == [&] { BS t = A; t &= B; return t; }() && (A | B) == [&] { BS t = A; t |= B; return t; }() && (A ^ B) == [&] { BS t = A; t ^= B; return t; }()
				&& (A << 1) == [&] { BS t = A; t <<= 1; return t; }() && (A >> 1) == [&] { BS t = A; t >>= 1; return t; }()) ? 1 : 0);
			ev.emit();
		}
	}
};

static std::vector<Op> random_ops(Rng &rng, size_t N, long long len) {
	static const char *names[] = {"construct", "construct_b", "set", "set_all", "reset", "reset_all", "flip", "flip_all", "ref_assign_bool",
		"ref_assign_ref", "ref_flip", "ref_not", "and", "or", "xor", "not", "shl", "shr", "swap_roles"};
	std::vector<Op> h;
	auto pos = [&]() -> long long {   // positions near word boundaries and the ends
		int c = rng.below(4);
		if(c == 0) return rng.below(N);
		if(c == 1) return N - 1 - rng.below(std::min<size_t>(N, 3));
		if(c == 2) { long long w = 64 * rng.below((N + 63) / 64); long long p = w + (long long)rng.below(3) - 1; return p < 0 ? 0 : (p >= (long long)N ? (long long)N - 1 : p); }
		return rng.below(std::min<size_t>(N, 3));
	};
	for(long long s = 0; s < len; s++) {
		Op o{names[rng.below(19)], pos(), pos(), 0, {}};
		if(o.name == "set" || o.name == "ref_assign_bool") o.k = rng.below(2);
		else if(o.name == "shl" || o.name == "shr") { int c = rng.below(5); o.k = c == 0 ? rng.below(N + 70) : c == 1 ? 64 * rng.below(N / 64 + 2) : c == 2 ? N - 1 + rng.below(3) : c == 3 ? rng.below(4) : 63 + rng.below(3); }
		else if(o.name == "construct" || o.name == "construct_b") { int c = rng.below(4); for(int b = 0; b < 64; b++) if(c == 0 ? true : c == 1 ? rng.coin() : c == 2 ? (b % 7 == 0) : b >= 60) o.bits.push_back(b); }
		h.push_back(o);
	}
	return h;
}

template<size_t N> static void bit_dispatch(size_t n, const std::vector<Op> &h, bool &done) { if(n == N && !done) { BitRunner<N> r; r.run(h); done = true; } }
#define NLIST X(1) X(2) X(3) X(31) X(32) X(33) X(63) X(64) X(65) X(70) X(127) X(128) X(129) X(191) X(192) X(193) X(253) X(255) X(256) X(257) X(320)
static bool run_bits(size_t n, const std::vector<Op> &h) {
	bool done = false;
#define X(k) bit_dispatch<k>(n, h, done);
	NLIST
#undef X
	return done;
}
static const size_t ALL_N[] = {
#define X(k) k,
	NLIST
#undef X
};

// ------------------------------------------------------------------ array, sort
static void array_checks() {
	Ev("Reset").str("kind", "array").i("N", 0).emit();
	for(long long base = 1; base <= 3; base++) {
		frg::array<long long, 4> a{{base, base + 1, base + 2, base + 3}};
		frg::array<long long, 4> same = a;
		frg::array<long long, 4> diff = a; diff[3] = 99;
		std::vector<long long> idx, iter;
		for(size_t i = 0; i < a.size(); i++) idx.push_back(a[i]);
		for(auto x : a) iter.push_back(x);
		frg::array<long long, 2> b{{7, 8}};
		frg::array<long long, 1> one{{base}};
		auto cat = frg::array_concat<long long>(a, b, one);
		std::vector<long long> catv(cat.begin(), cat.end());
		long long *heap = (long long *)malloc(sizeof(frg::array<long long, 3>));
		auto *ha = new (heap) frg::array<long long, 3>{{base, base * 2, base * 3}};     // exact-size block: back() past the end is an ASan report
		// the const twins of every accessor (a mutation campaign found that only the non-const back() was observed)
		const auto &ca = a; const auto *cha = ha;
		std::vector<long long> cidx, citer, criter;
		for(size_t i = 0; i < ca.size(); i++) cidx.push_back(ca[i]);
		for(auto it = ca.begin(); it != ca.end(); ++it) citer.push_back(*it);
		for(auto it = ca.cbegin(); it != ca.cend(); ++it) criter.push_back(*it);
		// swap exchanges the contents element by element
		frg::array<long long, 4> sx = a, sy{{9, 8, 7, 6}};
		swap(sx, sy);
		bool swapped = sy == a && sx[0] == 9 && sx[1] == 8 && sx[2] == 7 && sx[3] == 6;
		Ev("ArrayObs").i("swap_ok", swapped ? 1 : 0).raw("vals", jarr({base, base + 1, base + 2, base + 3})).raw("idx", jarr(idx)).raw("iter", jarr(iter))
			.raw("cidx", jarr(cidx)).raw("citer", jarr(citer)).raw("cciter", jarr(criter)).i("cfront", ca.front()).i("cback", ca.back())
			.i("chfront", cha->front()).i("chback", cha->back()).i("cdata0", *ca.data()).i("data0", *a.data()).i("cget3", frg::get<3>(ca))
			.i("maxsize", (long long)a.max_size()).i("empty", a.empty() ? 1 : 0)
			.i("front", a.front()).i("back", a.back()).i("hfront", ha->front()).i("hback", ha->back()).raw("hvals", jarr({base, base * 2, base * 3}))
			.i("eq_same", a == same ? 1 : 0).i("eq_diff", a == diff ? 1 : 0).raw("cat", jarr(catv)).raw("catexp", jarr({base, base + 1, base + 2, base + 3, 7, 8, base}))
			.i("get0", frg::get<0>(a)).i("get3", frg::get<3>(a)).i("size", (long long)a.size()).i("onefront", one.front()).i("oneback", one.back()).emit();
		free(heap);
	}
}

static void sort_case(const std::vector<long long> &in, int cmp) {
	std::vector<long long> v = in;
	if(cmp == 0) frg::insertion_sort(v.begin(), v.end(), [](long long x, long long y) { return x < y; });
	else if(cmp == 1) frg::insertion_sort(v.begin(), v.end(), [](long long x, long long y) { return x > y; });
	else frg::insertion_sort(v.begin(), v.end(), [](long long x, long long y) { return x / 2 < y / 2; });     // key projection
	Ev("Sort").raw("in", jarr(in)).raw("out", jarr(v)).i("cmp", cmp).emit();
}

// ------------------------------------------------------------------ PRNG (auxiliary differential)
static uint32_t pcg_ref(uint64_t &state, uint64_t inc) {
	uint64_t old = state; state = old * 6364136223846793005ULL + inc;
	uint32_t xs = (uint32_t)(((old >> 18u) ^ old) >> 27u), rot = (uint32_t)(old >> 59u);
	return (xs >> rot) | (xs << ((-rot) & 31));
}
static void prng_checks(long long seed0, int nseeds) {
	Ev("Reset").str("kind", "prng").i("N", 0).emit();
	Rng rng(seed0);
	long long mt_bad = 0, pcg_bad = 0, bound_bad = 0, draws = 0;
	for(int s = 0; s < nseeds; s++) {
		uint32_t seed = s == 0 ? 0 : s == 1 ? 1 : s == 2 ? 0xFFFFFFFFu : s == 3 ? 5489 : (uint32_t)rng.next();
		frg::mt19937 f; f.seed(seed); std::mt19937 r(seed);
		for(int i = 0; i < 1500; i++) { draws++; if(f() != r()) mt_bad++; }
		uint64_t seq = s % 5;
		frg::pcg_basic32 p(seed, seq);
		uint64_t st = 0, inc = (seq << 1) | 1; pcg_ref(st, inc); st += seed; pcg_ref(st, inc);
		for(int i = 0; i < 300; i++) { draws++; if(p() != pcg_ref(st, inc)) pcg_bad++; }
		for(uint32_t bound : {1u, 2u, 3u, 10u, 1000u, 0x80000000u, 0xFFFFFFFFu}) { uint32_t v = p(bound); if(v >= bound) bound_bad++; }
	}
	frg::mt19937 d; std::mt19937 rd;
	for(int i = 0; i < 10; i++) if(d() != rd()) mt_bad++;
	Ev("Prng").i("seeds", nseeds).i("draws", draws).i("mt_mismatch", mt_bad).i("pcg_mismatch", pcg_bad).i("bound_violations", bound_bad).emit();
}

int main(int argc, char **argv) {
	Args a(argc, argv);
	install_terminate();
	std::string mode = a.str("mode", "bitset");
	long long from = a.num("from", 0);
	if(mode == "array") { array_checks(); hist_done(0); return 0; }
	if(mode == "prng") { prng_checks(a.num("seed", 1), a.num("seeds", 40)); hist_done(0); return 0; }
	if(mode == "random") {
		long long len = a.num("len", 120); long long idx = 0;
		for(size_t n : ALL_N) for(int rep = 0; rep < a.num("reps", 2); rep++) {
			Rng rng(a.num("seed", 1) * 911 + n * 7 + rep);
			if(idx >= from) run_bits(n, random_ops(rng, n, len));
			hist_done(idx); idx++;
		}
		return 0;
	}
	std::string line; long long idx = 0;
	size_t n = a.num("n", 3);
	while(read_line(line)) {
		if(line.empty()) continue;
		if(idx >= from) {
			J j = parse_json(line);
			if(mode == "sort") {
				Ev("Reset").str("kind", "sort").i("N", 0).emit();
				std::vector<long long> in; const J *arr = j.get("in"); for(size_t i = 0; i < arr->size(); i++) in.push_back((*arr)[i].n);
				for(int c = 0; c < 3; c++) sort_case(in, c);
			} else {
				std::vector<Op> h;
				for(size_t i = 0; i < j.size(); i++) { Op o{j[i].string("name"), j[i].num("p"), j[i].num("q"), j[i].num("k"), {}}; const J *b = j[i].get("bits"); if(b) for(size_t k = 0; k < b->size(); k++) o.bits.push_back((*b)[k].n); h.push_back(o); }
				run_bits(n, h);
			}
		}
		hist_done(idx); idx++;
	}
	return 0;
}

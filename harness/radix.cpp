// Harness for C09 (sequential meaning of rcu_radixtree). Executes histories over a small key
// universe embedded into 64-bit keys; records results, every lookup of the universe and the
// iteration order after each call.
#include "common/trace.hpp"
#include "common/valloc.hpp"
#include <frg/rcu_radixtree.hpp>
#include <memory>

using namespace vt;

struct Val {
	uint64_t key; long long kidx; long long gen; uint64_t check;
	Val(uint64_t k, long long i, long long g) : key(k), kidx(i), gen(g), check(k * 0x9E3779B97F4A7C15ull + g) {}
	bool ok() const { return check == key * 0x9E3779B97F4A7C15ull + gen; }
};
using Tree = frg::rcu_radixtree<Val, VAlloc>;

struct Interner {
	std::map<const void *, long long> ids;
	long long of(const void *p) { if(!p) return 0; auto it = ids.find(p); if(it != ids.end()) return it->second; long long n = ids.size() + 1; return ids[p] = n; }
};

static std::string nibbles(uint64_t k) {
	std::vector<long long> v;
	for(int i = 0; i < 16; i++) v.push_back((k >> (60 - 4 * i)) & 0xF);
	return jarr(v);
}

struct Op { std::string op; int k; };

static void run_one(const std::vector<uint64_t> &keys, const std::vector<Op> &h) {
	blocks().reset();
	{
		std::string ks = "[";
		for(size_t i = 0; i < keys.size(); i++) { if(i) ks += ","; ks += nibbles(keys[i]); }
		ks += "]";
		Ev("Reset").raw("keys", ks).emit();
	}
	Interner in;
	std::vector<long long> gen(keys.size() + 1, 0);
	try {
		auto tree = std::make_unique<Tree>();
		auto snapshot = [&](Ev &ev) {
			std::vector<std::vector<long long>> all;
			for(size_t j = 0; j < keys.size(); j++) {
				Val *p = tree->find(keys[j]);
				if(p) all.push_back({in.of(p), p->kidx, p->gen, (p->ok() && p->key == keys[j]) ? 1 : 0});
				else all.push_back({0, 0, 0, 0});
			}
			ev.raw("all", jarr2(all));
			std::vector<std::vector<long long>> it;
			int guard = 0;
			for(auto i = tree->begin(); i != tree->end(); ++i) {
				it.push_back({(*i).kidx, in.of(&*i)});
				if(++guard > 1000) { it.push_back({-1, -1}); break; }
			}
			ev.raw("iter", jarr2(it));
		};
		for(auto &o : h) {
			uint64_t k = keys[o.k - 1];
			Ev ev("Op");
			ev.str("op", o.op).i("k", o.k);
			if(o.op == "foi") {
				auto r = tree->find_or_insert(k, k, (long long)o.k, gen[o.k] + 1);
				bool ins = r.template get<1>();
				if(ins) gen[o.k]++;
				ev.i("r", in.of(r.template get<0>())).i("ins", ins ? 1 : 0);
			} else if(o.op == "insert") {
				Val *p = tree->insert(k, k, (long long)o.k, gen[o.k] + 1);
				gen[o.k]++;
				ev.i("r", in.of(p)).i("ins", 1);
			} else if(o.op == "erase") {
				tree->erase(k);
				ev.i("r", 0).i("ins", 0);
			} else if(o.op == "find") {
				Val *p = tree->find(k);
				ev.i("r", in.of(p)).i("ins", 0);
			}
			snapshot(ev);
			ev.emit();
		}
		tree.reset();
		Ev("Destroyed").i("live_blocks", (long long)blocks().live.size()).i("bad_frees", blocks().bad).emit();
	} catch(Panic &) {}
}

int main(int argc, char **argv) {
	Args a(argc, argv);
	install_terminate();
	long long from = a.num("from", 0);
	std::vector<uint64_t> keys;
	{
		std::string ks = a.str("keys", "0,1");
		size_t pos = 0;
		while(pos < ks.size()) { size_t e = ks.find(',', pos); if(e == std::string::npos) e = ks.size(); keys.push_back(strtoull(ks.substr(pos, e - pos).c_str(), nullptr, 16)); pos = e + 1; }
	}
	if(a.has("random")) {
		long long n = a.num("random", 10), len = a.num("len", 50);
		for(long long i = 0; i < n; i++) {
			Rng rng(a.num("seed", 1) * 7717 + i);
			// fresh random universe per execution: clustered keys (shared prefixes of random length, dense leaves)
			std::vector<uint64_t> ks;
			int nk = a.num("nkeys", 10);
			uint64_t base = rng.next();
			while((int)ks.size() < nk) {
				uint64_t k;
				int mode = rng.below(6);
				if(mode == 0) k = rng.next();
				else if(mode == 1) k = base ^ (rng.below(16) << (4 * rng.below(16)));
				else if(mode == 2) k = (base & ~0xFull) | rng.below(16);
				else if(mode == 3) k = rng.coin() ? 0 : ~0ull;
				else if(mode == 4) { int keep = rng.below(16); uint64_t m = keep ? (~0ull << (64 - 4 * keep)) : 0; k = (base & m) | (rng.next() & ~m); }
				else k = ks.empty() ? base : ks[rng.below(ks.size())] ^ (1ull << rng.below(64));
				bool dup = false; for(auto x : ks) if(x == k) dup = true;
				if(!dup) ks.push_back(k);
			}
			std::vector<bool> present(nk + 1, false);
			std::vector<Op> h;
			for(long long s = 0; s < len; s++) {
				int k = rng.below(nk) + 1; int c = rng.below(10);
				if(c < 4) { h.push_back({"foi", k}); present[k] = true; }
				else if(c < 5 && !present[k]) { h.push_back({"insert", k}); present[k] = true; }
				else if(c < 8 && present[k]) { h.push_back({"erase", k}); present[k] = false; }
				else h.push_back({"find", k});
			}
			if(i >= from) run_one(ks, h);
			hist_done(i);
		}
		return 0;
	}
	std::string line; long long idx = 0;
	while(read_line(line)) {
		if(line.empty()) continue;
		if(idx >= from) {
			J j = parse_json(line);
			std::vector<Op> h;
			for(size_t i = 0; i < j.size(); i++) h.push_back({j[i].string("op"), (int)j[i].num("k")});
			run_one(keys, h);
		}
		hist_done(idx); idx++;
	}
	return 0;
}

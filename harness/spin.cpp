// Harness for C12 (spinlocks): runs the real ticket_spinlock / simple_spinlock under the cooperative
// scheduler; the __atomic builtins and the pause hint inside spinlock.hpp are redirected to the shim.
#include "common/trace.hpp"
#include "common/vsched.hpp"
#include "common/vatomic.hpp"

#define __atomic_fetch_add(p, v, mo) vt::a_fetch_add(p, v, mo)
#define __atomic_fetch_sub(p, v, mo) vt::a_fetch_sub(p, v, mo)
#define __atomic_load_n(p, mo) vt::a_load(p, mo)
#define __atomic_store_n(p, v, mo) vt::a_store(p, v, mo)
#define __atomic_exchange_n(p, v, mo) vt::a_exchange(p, v, mo)
#define __builtin_ia32_pause() vt::a_pause()
#define private public
#include <frg/spinlock.hpp>
#undef private
#undef __atomic_fetch_add
#undef __atomic_fetch_sub
#undef __atomic_load_n
#undef __atomic_store_n
#undef __atomic_exchange_n
#undef __builtin_ia32_pause

#include <type_traits>
using namespace vt;

static long long g_cell;     // the plain shared cell touched inside the critical section
static int g_inside;
static bool g_wrap = false;         // overlap detector (harness-side observation, judged by the trace spec)

template<class L> void name_vars(L &l);
template<> void name_vars(frg::ticket_spinlock &l) {
	vars().names[(uintptr_t)&l.next_ticket_] = "next";
	vars().names[(uintptr_t)&l.serving_ticket_] = "serving";
}
template<> void name_vars(frg::simple_spinlock &l) { vars().names[(uintptr_t)&l.lock_] = "flag"; }

template<class L>
void execute(const char *kind, int nthreads, int rounds, const std::vector<int> *schedule, Rng *rng, bool observe) {
	L lock;
	// --wrap: the ticket counters start two steps before the 32-bit wrap-around, so that tickets and the serving counter
	// pass it during the execution (the lock must behave the same: it compares tickets for equality)
	if constexpr (std::is_same_v<L, frg::ticket_spinlock>) { if(g_wrap) { lock.next_ticket_ = 0xFFFFFFFEu; lock.serving_ticket_ = 0xFFFFFFFEu; } }
	vars().clear();
	name_vars(lock);
	g_cell = 0; g_inside = 0;
	Ev("Reset").str("kind", kind).i("threads", nthreads).i("rounds", rounds).emit();
	static Sched s;
	s.start(nthreads, [&](int t) {
		for(int r = 0; r < rounds; r++) {
			Ev("LockCall").i("t", t).emit();
			cur_op() = "lock";
			lock.lock();
			cur_op() = "";
			Ev("LockRet").i("t", t).emit();
			// critical section: plain read-modify-write of the shared cell
			int inside = ++g_inside;
			long long v = g_cell; g_cell = v + 1;
			Ev("Cell").i("t", t).i("val", v + 1).i("inside", inside).emit();
			seam_yield(1);
			--g_inside;
			if(observe) {
				log_accesses() = false; Sched *sv = Sched::cur(); Sched::cur() = nullptr;
				bool il = lock.is_locked();
				Sched::cur() = sv; log_accesses() = true;
				Ev("IsLocked").i("t", t).i("r", il ? 1 : 0).emit();
			}
			Ev("UnlockCall").i("t", t).emit();
			cur_op() = "unlock";
			lock.unlock();
			cur_op() = "";
			Ev("UnlockRet").i("t", t).emit();
		}
		Ev("ThreadDone").i("t", t).emit();
	});
	if(schedule) {
		for(int t : *schedule) s.step(t);
	} else {
		long long steps = 0;
		int last = 0;
		while(!s.all_done()) {
			int t = rng->coin(60) ? last : (int)rng->below(nthreads);
			if(s.is_done(t)) { t = (int)rng->below(nthreads); if(s.is_done(t)) continue; }
			last = t;
			s.step(t);
			if(++steps > 200000) { Ev("stall").str("why", "step limit").emit(); break; }
			if((steps & 15) == 0 && s.stalled(4)) {
				// every unfinished thread keeps re-reading unchanged state: nobody can ever acquire
				Ev("stall").str("why", "all unfinished threads spin without any change of shared state").emit();
				break;
			}
		}
	}
	bool complete = s.all_done();
	s.finish();
	Ev("End").i("cell", g_cell).i("complete", complete ? 1 : 0).emit();
}

int main(int argc, char **argv) {
	Args a(argc, argv);
	install_terminate();
	std::string kind = a.str("lock", "ticket");
	int nthreads = a.num("threads", 2), rounds = a.num("rounds", 2);
	long long from = a.num("from", 0);
	bool observe = a.has("observe");
	g_wrap = a.has("wrap");
	auto go = [&](const std::vector<int> *sch, Rng *rng) {
		if(kind == "ticket") execute<frg::ticket_spinlock>("ticket", nthreads, rounds, sch, rng, observe);
		else execute<frg::simple_spinlock>("simple", nthreads, rounds, sch, rng, observe);
	};
	if(a.has("random")) {
		long long n = a.num("random", 10);
		for(long long i = 0; i < n; i++) {
			Rng rng(a.num("seed", 1) * 1000003 + i);
			if(i >= from) go(nullptr, &rng);
			hist_done(i);
		}
		return 0;
	}
	std::string line; long long idx = 0;
	while(read_line(line)) {
		if(line.empty()) continue;
		if(idx >= from) {
			J j = parse_json(line);
			std::vector<int> sch;
			for(size_t i = 0; i < j.size(); i++) sch.push_back((int)j[i].n);
			go(&sch, nullptr);
		}
		hist_done(idx); idx++;
	}
	return 0;
}

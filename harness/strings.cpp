// Harness for C15: frg::basic_string / basic_string_view against the reference string operations.
// Source buffers are exact-size heap blocks: reading one byte past a view's end is an ASan report.
#include <new>
#include "common/trace.hpp"
#include "common/valloc.hpp"
#include <frg/string.hpp>

using namespace vt;
using S = frg::string<VAlloc>;
using V = frg::string_view;

static char *exact(const std::vector<long long> &x, bool terminated) {
	char *p = (char *)malloc(x.size() + (terminated ? 1 : 0) + (x.empty() && !terminated ? 1 : 0));
	for(size_t i = 0; i < x.size(); i++) p[i] = (char)x[i];
	if(terminated) p[x.size()] = 0;
	return p;
}
static std::vector<long long> bytes(const char *p, size_t n) { std::vector<long long> v; for(size_t i = 0; i < n; i++) v.push_back((unsigned char)p[i]); return v; }
static long long pos(size_t r) { return r == size_t(-1) ? -1 : (long long)r; }
static long long term_ok(const S &s) { return s.data() ? (s.data()[s.size()] == 0 ? 1 : 0) : (s.size() == 0 ? 1 : 0); }
static std::vector<long long> vec(const J &j) { std::vector<long long> v; for(size_t i = 0; i < j.size(); i++) v.push_back(j[i].n); return v; }

static void do_pair(const std::vector<long long> &a, const std::vector<long long> &b, const std::vector<long long> &alphabet) {
	char *pa = exact(a, false), *pb = exact(b, false), *ca = exact(a, true), *cb = exact(b, true);
	V va(pa, a.size()), vb(pb, b.size());
	S sa(pa, a.size()), sb(pb, b.size());
	Ev ev("Pair");
	ev.raw("a", jarr(a)).raw("b", jarr(b));
	ev.i("eq_view", va == vb ? 1 : 0).i("cmp", sa.compare(sb)).i("eq_str", sa == sb ? 1 : 0).i("cmp_c", sa.compare(cb)).i("eq_c", sa == (const char *)cb ? 1 : 0);
	std::vector<std::vector<long long>> ff, fl;
	for(long long c : alphabet) { ff.push_back({c, pos(va.find_first((char)c)), pos(va.find_first((char)c, 1))}); fl.push_back({c, pos(va.find_last((char)c))}); }
	ev.raw("find_first", jarr2(ff)).raw("find_last", jarr2(fl));
	ev.i("ffo0", pos(va.find_first_of(vb))).i("ffo1", pos(va.find_first_of(vb, 1)));
	ev.i("starts", va.starts_with(vb) ? 1 : 0).i("ends", va.ends_with(vb) ? 1 : 0).i("sstarts", sa.starts_with(vb) ? 1 : 0).i("sends", sa.ends_with(vb) ? 1 : 0);
	std::string sub = "[";
	bool first = true;
	for(size_t from = 0; from <= a.size(); from++) for(size_t n = 0; from + n <= a.size(); n++) {
		V r = va.sub_string(from, n);
		if(!first) sub += ","; first = false;
		sub += "[" + std::to_string(from) + "," + std::to_string(n) + "," + jarr(bytes(r.data(), r.size())) + "]";
	}
	ev.raw("sub", sub + "]");
	ev.i("hash_view", (long long)frg::hash<V>{}(va)).i("hash_str", (long long)frg::hash<S>{}(sa));
	S fc((const char *)ca); S fv(va); S cp(sa); S asg; asg = sa;
	V back = sa;
	ev.raw("from_cstr", jarr(bytes(fc.data(), fc.size()))).raw("from_view", jarr(bytes(fv.data(), fv.size()))).raw("copy", jarr(bytes(cp.data(), cp.size())))
	  .raw("assigned", jarr(bytes(asg.data(), asg.size()))).raw("view_back", jarr(bytes(back.data(), back.size())))
	  .i("term", term_ok(sa) & term_ok(fc) & term_ok(fv) & term_ok(cp) & term_ok(asg)).i("view_cstr_len", (long long)V((const char *)ca).size());
	{	// fill constructor, indexing through string and view, iteration through begin()/end(), const access
		S fill(a.size(), 'b');
		const S &csa = sa;
		std::vector<long long> idx_s, idx_v, it, cit;
		for(size_t i = 0; i < sa.size(); i++) { idx_s.push_back((unsigned char)sa[i]); idx_v.push_back((unsigned char)va[i]); }
		for(char *q = sa.begin(); q != sa.end(); ++q) it.push_back((unsigned char)*q);
		for(const char *q = csa.begin(); q != csa.end(); ++q) cit.push_back((unsigned char)*q);
		ev.raw("fill", jarr(bytes(fill.data(), fill.size()))).raw("index_str", jarr(idx_s)).raw("index_view", jarr(idx_v))
		  .raw("iter", jarr(it)).raw("citer", jarr(cit)).i("sizes", (long long)(sa.size() * 100 + va.size()))
		  .i("empties", (sa.empty() ? 1 : 0) + (S().empty() ? 2 : 0)).i("term3", term_ok(fill) & term_ok(csa));
	}
	S cat = sa + vb; S catc = sa + 'a'; S app(sa); app += vb;
	ev.raw("plus", jarr(bytes(cat.data(), cat.size()))).raw("plus_char", jarr(bytes(catc.data(), catc.size()))).raw("append", jarr(bytes(app.data(), app.size())))
	  .i("term2", term_ok(cat) & term_ok(catc) & term_ok(app));
	ev.emit();
	free(pa); free(pb); free(ca); free(cb);
}

struct MOp { std::string name; std::vector<long long> x; long long n; };
static void do_mutate(const std::vector<MOp> &h) {
	S s;
	for(auto &o : h) {
		char *px = exact(o.x, false), *cx = exact(o.x, true);
		V vx(px, o.x.size());
		if(o.name == "assign_cstr") s = S((const char *)cx);
		else if(o.name == "assign_ptrlen") s = S(px, o.x.size());
		else if(o.name == "from_view") s = S(vx);
		else if(o.name == "append_view") s += vx;
		else if(o.name == "plus_view") s = s + vx;
		else if(o.name == "append_char") s += (char)o.x[0];
		else if(o.name == "push_back") s.push_back((char)o.x[0]);
		else if(o.name == "plus_char") s = s + (char)o.x[0];
		else if(o.name == "resize") { size_t old = s.size(); s.resize(o.n); for(size_t i = old; i < (size_t)o.n; i++) s[i] = 0; }
		else if(o.name == "copy") { S c(s); s = c; }
		else if(o.name == "assign_self_copy") { S c(s); S d; d = c; s = d; }
		Ev("MOp").str("name", o.name).raw("x", jarr(o.x)).i("n", o.n).i("size", (long long)s.size()).i("empty", s.empty() ? 1 : 0)
			.raw("contents", jarr(bytes(s.data(), s.size()))).i("term", term_ok(s)).emit();
		free(px); free(cx);
	}
}

int main(int argc, char **argv) {
	Args a(argc, argv);
	install_terminate();
	std::string mode = a.str("mode", "pairs");
	long long from = a.num("from", 0);
	std::vector<long long> alphabet{97, 98, 0};
	std::string line; long long idx = 0;
	while(read_line(line)) {
		if(line.empty()) continue;
		if(idx >= from) {
			J j = parse_json(line);
			blocks().reset();
			Ev("Reset").str("mode", mode).emit();
			try {
				if(mode == "pairs") do_pair(vec(*j.get("a")), vec(*j.get("b")), alphabet);
				else if(mode == "mutate") { std::vector<MOp> h; for(size_t i = 0; i < j.size(); i++) h.push_back({j[i].string("name"), vec(*j[i].get("x")), j[i].num("n")}); do_mutate(h); }
				else if(mode == "number") {
					std::vector<long long> s = vec(*j.get("s"));
					char *p = exact(s, false);
					V v(p, s.size());
					auto r = v.to_number<int>(); auto u = v.to_number<unsigned long>();
					Ev("Num").raw("s", jarr(s)).i("r", r ? (long long)*r : -1).i("has", r ? 1 : 0).i("u", u ? (long long)*u : -1).emit();
					free(p);
				}
				Ev("End").i("live_blocks", (long long)blocks().live.size()).emit();
			} catch(Panic &) {}
		}
		hist_done(idx); idx++;
	}
	return 0;
}

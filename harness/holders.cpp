// Harness for C17 (value holders) and, with Tracked elements, the ledger of C16:
// frg::optional / expected / variant / manual_box, each mirrored on the corresponding standard
// type (std::optional, std::expected, std::variant) so that a wrong specification shows up as a
// spec-vs-std disagreement instead of an accusation of frigg. Plus frg::tuple observations.
#include <new>
#include <optional>
#include <variant>
#include <expected>
#include <tuple>
#include "common/trace.hpp"
#include "common/valloc.hpp"
#include "common/tracked.hpp"
#include <frg/optional.hpp>
#include <frg/expected.hpp>
#include <frg/variant.hpp>
#include <frg/manual_box.hpp>
#include <frg/tuple.hpp>

using namespace vt;

struct Op { std::string name; int d; long long x; int i; };

// move-only element
struct MoveOnly {
	long long v;
	MoveOnly() : v(0) {}
	MoveOnly(long long x) : v(x) {}
	MoveOnly(MoveOnly &&o) : v(o.v) {}
	MoveOnly &operator=(MoveOnly &&o) { v = o.v; return *this; }
	MoveOnly(const MoveOnly &) = delete;
	MoveOnly &operator=(const MoveOnly &) = delete;
};
inline long long value_of(const MoveOnly &m) { return m.v; }

template<class H>
struct Two {
	alignas(H) unsigned char store[2][sizeof(H)];
	bool alive[2] = {false, false};
	H &at(int d) { return *reinterpret_cast<H *>(store[d - 1]); }
	template<class... A> void make(int d, A &&... a) { if(alive[d - 1]) at(d).~H(); new (store[d - 1]) H(std::forward<A>(a)...); alive[d - 1] = true; }
	void kill() { for(int d = 1; d <= 2; d++) if(alive[d - 1]) { at(d).~H(); alive[d - 1] = false; } }
};

static std::string pair_json(long long tag, long long val) { return "[" + std::to_string(tag) + "," + std::to_string(val) + "]"; }

// ------------------------------------------------------------------ optional
template<class T, bool Copyable>
struct OptRunner {
	Two<frg::optional<T>> f; Two<std::optional<T>> s;
	void begin() { addrs().add_pseudo(f.store, sizeof f.store, 1001); f.make(1); f.make(2); s.make(1); s.make(2); }
	bool apply(const Op &o) {
		int d = o.d, q = 3 - o.d;
		if(o.name == "default") { f.make(d); s.make(d); }
		else if(o.name == "value" || (o.name == "value_copy" && !Copyable)) { f.make(d, T(o.x)); s.make(d, T(o.x)); }
		else if(o.name == "value_conv") { f.make(d, (int)o.x); s.make(d, (int)o.x); }     // optional(U &&)
		else if(o.name == "null") { f.make(d, frg::null_opt); s.make(d, std::nullopt); }
		else if(o.name == "move_construct") { f.make(d, std::move(f.at(q))); s.make(d, std::move(s.at(q))); }
		else if(o.name == "move_assign") { f.at(d) = std::move(f.at(q)); s.at(d) = std::move(s.at(q)); }
		else if(o.name == "assign_null") { f.at(d) = frg::null_opt; s.at(d) = std::nullopt; }
		else if(o.name == "assign_value") { f.at(d) = T(o.x); s.at(d) = T(o.x); }
		else if(o.name == "emplace") { f.at(d).emplace(o.x); s.at(d).emplace(o.x); }
		else if(o.name == "assign_conv" || o.name == "assign_conv_copy") {
			// from an optional of another, convertible type (engaged with x when i = 1);
			// assign_conv_copy goes through operator=(const optional<U> &), assign_conv through operator=(optional<U> &&)
			frg::optional<int> fo; std::optional<int> so;
			if(o.i) { fo = (int)o.x; so = (int)o.x; }
			if(o.name == "assign_conv_copy") { const auto &cf = fo; const auto &cs = so; f.at(d) = cf; s.at(d) = cs; }
			else { f.at(d) = std::move(fo); s.at(d) = std::move(so); }
		}
		else if constexpr (Copyable) {
			if(o.name == "copy_construct") { f.make(d, f.at(q)); s.make(d, s.at(q)); }
			else if(o.name == "copy_assign") { f.at(d) = f.at(q); s.at(d) = s.at(q); }
			else if(o.name == "value_copy") { const T t(o.x); f.make(d, t); s.make(d, t); }     // optional(const T &)
			else return false;
		} else return false;
		return true;
	}
	std::string obs(bool ref) {
		std::string r = "[";
		for(int d = 1; d <= 2; d++) {
			if(d == 2) r += ",";
			if(!ref) {
				auto &h = f.at(d); const auto &ch = h; bool e = h.has_value();
				// every accessor has to name the same held object
				bool same = !e || (h.operator->() == &*h && &*ch == &*h && &h.value() == &*h && &ch.value() == &*h);
				r += pair_json(!same || e != (bool)h ? 9 : (e ? 1 : 0), e ? value_of(*h) : 0);
			}
			else { auto &h = s.at(d); r += pair_json(h.has_value() ? 1 : 0, h.has_value() ? value_of(*h) : 0); }
		}
		return r + "]";
	}
	// beyond the listed property (pseudo-property EXTRA): the comparison operators of optional against values, beside std
	std::string cmp(bool ref) requires std::is_same_v<T, long long> {
		std::vector<long long> v;
		for(int d = 1; d <= 2; d++) for(long long x : {0ll, 1ll, 2ll}) {
			if(!ref) { auto &h = f.at(d); v.push_back(h == x); v.push_back(x == h); v.push_back(h != x); v.push_back(x != h); v.push_back(h < x); v.push_back(x < h); }
			else { auto &h = s.at(d); v.push_back(h == x); v.push_back(x == h); v.push_back(h != x); v.push_back(x != h); v.push_back(h < x); v.push_back(x < h); }
		}
		return jarr(v);
	}
	void end() { f.kill(); s.kill(); }
};

// ------------------------------------------------------------------ expected
enum class Err : int { none = 0 };
template<class T, bool Copyable>
struct ExpRunner {
	using F = frg::expected<Err, T>; using S = std::expected<T, Err>;
	Two<F> f; Two<S> s; bool bad = false;
	void begin() { addrs().add_pseudo(f.store, sizeof f.store, 1001); f.make(1); f.make(2); s.make(1); s.make(2); }
	bool apply(const Op &o) {
		int d = o.d, q = 3 - o.d;
		if(o.name == "default") { f.make(d); s.make(d); }
		else if(o.name == "value") { f.make(d, T(o.x)); s.make(d, T(o.x)); }
		else if(o.name == "error") { f.make(d, (Err)o.x); s.make(d, std::unexpected<Err>((Err)o.x)); }
		else if(o.name == "unwrap" && !s.at(d).has_value()) return false;     // contract violation: not executed
		else if(o.name == "unwrap") { long long before = value_of(f.at(d).value()); T r = f.at(d).unwrap(); if(value_of(r) != before) bad = true; }
		else if(o.name == "map") {
			auto flip = [](T v) { return T(value_of(v) == 1 ? 2 : 1); };
			if(s.at(q).has_value()) { T nv = flip(std::move(s.at(q).value())); s.make(d, std::move(nv)); } else { Err e = s.at(q).error(); s.make(d, std::unexpected<Err>(e)); }
			f.make(d, f.at(q).map(flip));
		}
		else if(o.name == "map_error") {
			auto flip = [](Err e) { return (Err)((int)e == 1 ? 2 : 1); };
			if(s.at(q).has_value()) { T nv = std::move(s.at(q).value()); s.make(d, std::move(nv)); } else { Err e = flip(s.at(q).error()); s.make(d, std::unexpected<Err>(e)); }
			f.make(d, f.at(q).map_error(flip));
		}
		else if(o.name == "move_construct") { f.make(d, std::move(f.at(q))); s.make(d, std::move(s.at(q))); }
		else if(o.name == "move_assign") { f.at(d) = std::move(f.at(q)); s.at(d) = std::move(s.at(q)); }
		else if constexpr (Copyable) {
			if(o.name == "copy_construct") { f.make(d, f.at(q)); s.make(d, s.at(q)); }
			else if(o.name == "copy_assign") { f.at(d) = f.at(q); s.at(d) = s.at(q); }
			else return false;
		} else return false;
		return true;
	}
	std::string obs(bool ref) {
		std::string r = "[";
		for(int d = 1; d <= 2; d++) {
			if(d == 2) r += ",";
			if(!ref) {
				auto &h = f.at(d); const auto &ch = h; bool ok = (bool)h;
				bool same = !ok || &ch.value() == &h.value();
				r += pair_json(bad || !same ? 9 : (ok ? (h.maybe_error() == Err::none ? 1 : 9) : (h.maybe_error() == h.error() ? 2 : 9)), ok ? value_of(h.value()) : (long long)h.error());
			}
			else { auto &h = s.at(d); r += pair_json(h.has_value() ? 1 : 2, h.has_value() ? value_of(h.value()) : (long long)h.error()); }
		}
		return r + "]";
	}
	void end() { f.kill(); s.kill(); }
};

// ------------------------------------------------------------------ expected<E, void>
struct ExpVoidRunner {
	using F = frg::expected<Err>; using S = std::expected<void, Err>;
	Two<F> f; Two<S> s; bool bad = false;
	void begin() { f.make(1); f.make(2); s.make(1); s.make(2); }
	bool apply(const Op &o) {
		int d = o.d, q = 3 - o.d;
		if(o.name == "default") { f.make(d); s.make(d); }
		else if(o.name == "success") { f.make(d, frg::success); s.make(d); }
		else if(o.name == "error") { f.make(d, (Err)o.x); s.make(d, std::unexpected<Err>((Err)o.x)); }
		else if(o.name == "copy_construct") { f.make(d, f.at(q)); s.make(d, s.at(q)); }
		else if(o.name == "move_construct") { f.make(d, std::move(f.at(q))); s.make(d, std::move(s.at(q))); }
		else if(o.name == "copy_assign") { f.at(d) = f.at(q); s.at(d) = s.at(q); }
		else if(o.name == "move_assign") { f.at(d) = std::move(f.at(q)); s.at(d) = std::move(s.at(q)); }
		else if(o.name == "unwrap" && !s.at(d).has_value()) return false;
		else if(o.name == "unwrap") f.at(d).unwrap();
		else if(o.name == "map_error") {
			auto flip = [](Err e) { return (Err)((int)e == 1 ? 2 : 1); };
			if(s.at(q).has_value()) s.make(d); else { Err e = flip(s.at(q).error()); s.make(d, std::unexpected<Err>(e)); }
			f.make(d, f.at(q).map_error(flip));
		}
		else return false;
		return true;
	}
	std::string obs(bool ref) {
		std::string r = "[";
		for(int d = 1; d <= 2; d++) {
			if(d == 2) r += ",";
			if(!ref) { auto &h = f.at(d); bool ok = (bool)h; r += pair_json(ok ? (h.maybe_error() == Err::none ? 1 : 9) : (h.maybe_error() == h.error() ? 2 : 9), ok ? 0 : (long long)h.error()); }
			else { auto &h = s.at(d); r += pair_json(h.has_value() ? 1 : 2, h.has_value() ? 0 : (long long)h.error()); }
		}
		return r + "]";
	}
	void end() { f.kill(); s.kill(); }
};

// ------------------------------------------------------------------ variant
struct Small { char c; Small(long long x = 0) : c((char)x) {} };
struct Plain { long long v; Plain(long long x = 0) : v(x) {} };
inline long long value_of(const Plain &p) { return p.v; }
inline long long value_of(const Small &s) { return s.c; }
template<class T, bool Copyable>
struct VarRunner {
	using F = frg::variant<long long, T, Small>; using S = std::variant<std::monostate, long long, T, Small>;
	Two<F> f; Two<S> s;
	void begin() { addrs().add_pseudo(f.store, sizeof f.store, 1001); f.make(1); f.make(2); s.make(1); s.make(2); }
	bool apply(const Op &o) {
		int d = o.d, q = 3 - o.d;
		if(o.name == "default") { f.make(d); s.make(d); }
		else if(o.name == "value") {
			if(o.i == 1) { f.make(d, (long long)o.x); s.make(d, std::in_place_index<1>, o.x); }
			else if(o.i == 2) { f.make(d, T(o.x)); s.make(d, std::in_place_index<2>, o.x); }
			else { f.make(d, Small(o.x)); s.make(d, std::in_place_index<3>, o.x); }
		}
		else if(o.name == "emplace") {
			if(o.i == 1) { f.at(d).template emplace<long long>(o.x); s.at(d).template emplace<1>(o.x); }
			else if(o.i == 2) { f.at(d).template emplace<T>(o.x); s.at(d).template emplace<2>(o.x); }
			else { f.at(d).template emplace<Small>(o.x); s.at(d).template emplace<3>(o.x); }
		}
		else if(o.name == "move_construct") { f.make(d, std::move(f.at(q))); s.make(d, std::move(s.at(q))); }
		else if(o.name == "move_assign") { f.at(d) = std::move(f.at(q)); s.at(d) = std::move(s.at(q)); }
		else if constexpr (Copyable) {
			if(o.name == "copy_construct") { f.make(d, f.at(q)); s.make(d, s.at(q)); }
			else if(o.name == "copy_assign") { f.at(d) = f.at(q); s.at(d) = s.at(q); }
			else return false;
		} else return false;
		return true;
	}
	std::string obs(bool ref) {
		std::string r = "[";
		for(int d = 1; d <= 2; d++) {
			if(d == 2) r += ",";
			if(!ref) {
				auto &h = f.at(d); const auto &ch = h;
				auto vis = [](const auto &x) -> long long { if constexpr (std::is_same_v<std::decay_t<decltype(x)>, long long>) return x; else return value_of(x); };
				if(!h) r += pair_json(h.tag() == F::invalid_tag ? 0 : 9, 0);
				else {
					long long via = h.apply(vis), cvia = ch.const_apply(vis);
					long long got; int tag;
					if(h.template is<long long>()) { tag = h.tag() == 0 ? 1 : 9; got = h.template get<long long>(); }
					else if(h.template is<T>()) { tag = h.tag() == 1 ? 2 : 9; got = value_of(h.template get<T>()); }
					else { tag = 3; got = value_of(h.template get<Small>()); }
					// the const get<>() names the same object
					bool cget = h.template is<long long>() ? (const void *)&ch.template get<long long>() == (const void *)&h.template get<long long>()
						: h.template is<T>() ? (const void *)&ch.template get<T>() == (const void *)&h.template get<T>()
						: (const void *)&ch.template get<Small>() == (const void *)&h.template get<Small>();
					r += pair_json(via == got && cvia == got && cget ? tag : 9, got);
				}
			} else {
				auto &h = s.at(d);
				if(h.index() == 0) r += pair_json(0, 0);
				else if(h.index() == 1) r += pair_json(1, std::get<1>(h));
				else if(h.index() == 2) r += pair_json(2, value_of(std::get<2>(h)));
				else r += pair_json(3, value_of(std::get<3>(h)));
			}
		}
		return r + "]";
	}
	void end() { f.kill(); s.kill(); }
};

// ------------------------------------------------------------------ manual_box
template<class T>
struct BoxRunner {
	frg::manual_box<T> f[2]; std::optional<T> s[2];
	void begin() { addrs().add_pseudo(f, sizeof f, 1001); }
	bool apply(const Op &o) {
		if(o.name == "value") { f[o.d - 1].initialize(o.x); s[o.d - 1].emplace(o.x); }
		else if(o.name == "value_with") { long long x = o.x; f[o.d - 1].construct_with([x] { return T(x); }); s[o.d - 1].emplace(o.x); }
		else if(o.name == "destruct") { f[o.d - 1].destruct(); s[o.d - 1].reset(); }
		else return false;
		return true;
	}
	std::string obs(bool ref) {
		std::string r = "[";
		for(int d = 0; d < 2; d++) {
			if(d) r += ",";
			if(!ref) { bool v = f[d].valid(); r += pair_json(v && (bool)f[d] ? 1 : (v != (bool)f[d] ? 9 : 0), v ? value_of(*f[d].get()) : 0); }
			else r += pair_json(s[d] ? 1 : 0, s[d] ? value_of(*s[d]) : 0);
		}
		return r + "]";
	}
	void end() { for(int d = 0; d < 2; d++) { if(f[d].valid()) f[d].destruct(); s[d].reset(); } }
};

template<class R>
static void run_one(R &r, const std::string &kind, const std::string &elem, const std::vector<Op> &h) {
	blocks().reset(); addrs().reset();
	Ev("Reset").str("kind", kind).str("elem", elem).emit();
	try {
		bool lo = ledger_on(); r.begin();
		for(auto &o : h) {
			if(ledger_on()) Ev("OpBegin").str("name", o.name).i("d", o.d).emit();
			bool did = r.apply(o);
			Ev ev("Op");
			ev.str("name", o.name).i("d", o.d).i("x", o.x).i("i", o.i).i("skipped", did ? 0 : 1);
			lo = ledger_on(); ledger_on() = false;
			ev.raw("obs", r.obs(false)).raw("ref", r.obs(true));
			if constexpr (requires { r.cmp(false); }) ev.raw("cmp", r.cmp(false)).raw("refcmp", r.cmp(true));
			ledger_on() = lo;
			ev.emit();
		}
		r.end();
		Ev("OwnerGone").i("live_blocks", (long long)blocks().live.size()).i("bad_frees", blocks().bad).emit();
	} catch(Panic &) {}
}

// ------------------------------------------------------------------ tuple
static void tuple_checks() {
	Ev("Reset").str("kind", "tuple").str("elem", "int").emit();
	for(long long a = 1; a <= 3; a++) for(long long b = 4; b <= 5; b++) {
		long long c = a * 10 + b;
		auto t = frg::make_tuple(a, b, c);
		std::vector<long long> got{t.template get<0>(), t.template get<1>(), t.template get<2>()};
		std::vector<long long> applied;
		frg::apply([&](long long x, long long y, long long z) { applied = {x, y, z}; }, t);
		auto cat = frg::tuple_cat(frg::make_tuple(a, b), frg::make_tuple(c), frg::make_tuple());
		std::vector<long long> catv{cat.template get<0>(), cat.template get<1>(), cat.template get<2>()};
		long long x = a, y = b;
		frg::tuple<long long &, long long &> refs{x, y};
		bool same = &refs.template get<0>() == &x && &refs.template get<1>() == &y;
		refs.template get<0>() = 77;
		frg::tuple<long long &, long long &> copy(refs);
		bool same2 = &copy.template get<1>() == &y;
		frg::tuple<long long, long long> conv(frg::make_tuple(a, b));
		// reference identity survives tuple_cat (reference elements are passed on as references)
		long long p = a, q = b;
		frg::tuple<long long &, long long> rt(p, 5);
		frg::tuple<long long &> rt2(q);
		auto rcat = frg::tuple_cat(rt, rt2);
		bool catref = &rcat.template get<0>() == &p && &rcat.template get<2>() == &q && rcat.template get<1>() == 5;
		same2 = same2 && catref;
		Ev("TupleObs").raw("vals", jarr({a, b, c})).raw("got", jarr(got)).raw("applied", jarr(applied)).raw("cat", jarr(catv))
			.i("refsame", same && same2 ? 1 : 0).i("write_through", x == 77 ? 1 : 0).raw("conv", jarr({conv.template get<0>(), conv.template get<1>()})).emit();
	}
}

int main(int argc, char **argv) {
	Args a(argc, argv);
	install_terminate();
	std::string kind = a.str("kind", "optional"), elem = a.str("elem", "int");
	ledger_on() = a.has("ledger");
	long long from = a.num("from", 0);
	if(kind == "tuple") { tuple_checks(); hist_done(0); return 0; }
	auto go = [&](const std::vector<Op> &h) {
		auto with = [&](auto r) { run_one(r, kind, elem, h); };
		if(kind == "optional") { if(elem == "int") with(OptRunner<long long, true>{}); else if(elem == "tracked") with(OptRunner<Tracked, true>{}); else with(OptRunner<MoveOnly, false>{}); }
		else if(kind == "expected") { if(elem == "int") with(ExpRunner<long long, true>{}); else if(elem == "tracked") with(ExpRunner<Tracked, true>{}); else with(ExpRunner<MoveOnly, false>{}); }
		else if(kind == "expected_void") with(ExpVoidRunner{});
		else if(kind == "variant") { if(elem == "int") with(VarRunner<Plain, true>{}); else if(elem == "tracked") with(VarRunner<Tracked, true>{}); else with(VarRunner<MoveOnly, false>{}); }
		else if(kind == "manual_box") { if(elem == "tracked") with(BoxRunner<Tracked>{}); else with(BoxRunner<long long>{}); }
	};
	std::string line; long long idx = 0;
	while(read_line(line)) {
		if(line.empty()) continue;
		if(idx >= from) {
			J j = parse_json(line);
			std::vector<Op> h;
			for(size_t i = 0; i < j.size(); i++) h.push_back({j[i].string("name"), (int)j[i].num("d"), j[i].num("x"), (int)j[i].num("i")});
			go(h);
		}
		hist_done(idx); idx++;
	}
	return 0;
}

// Harness for C10: one writer and lock-free readers on the real rcu_radixtree under the cooperative
// scheduler. std::atomic inside the header is the logging shim; every atomic access and every API
// return is a scheduling point.
#include <stdint.h>
#include <atomic>
#include <new>
#include "common/trace.hpp"
#include "common/vsched.hpp"
#include "common/vatomic.hpp"
#include "common/valloc.hpp"
#include <frg/allocation.hpp>
#include <frg/eternal.hpp>
#include <frg/macros.hpp>
#include <frg/tuple.hpp>
#define atomic verif_atomic
#define private public
#include <frg/rcu_radixtree.hpp>
#undef private
#undef atomic
#include <memory>

using namespace vt;

static long long block_of(const void *p, long long *off = nullptr) {
	for(auto &kv : blocks().live) {
		auto base = (uintptr_t)kv.first;
		if((uintptr_t)p >= base && (uintptr_t)p < base + kv.second) { if(off) *off = (uintptr_t)p - base; return blocks().id_of(kv.first); }
	}
	return 0;
}
static long long addr_id(const void *p) { if(!p) return 0; long long off = 0; long long b = block_of(p, &off); return b * 10000 + off + 1; }

struct Val {
	uint64_t key; long long kidx; long long gen; uint64_t check;
	Val(uint64_t k, long long i, long long g) : key(k), kidx(i), gen(g), check(k * 0x9E3779B97F4A7C15ull + g) {
		Ev("Construct").i("t", tid()).i("r", addr_id(this)).i("k", i).i("gen", g).emit();
	}
	bool ok() const { return check == key * 0x9E3779B97F4A7C15ull + (uint64_t)gen; }
};
using Tree = frg::rcu_radixtree<Val, VAlloc>;
static const void *g_root_addr;

static void decor(Ev &ev, const void *addr, long long) {
	if(addr == g_root_addr) { ev.str("vc", "root").i("b", 0).i("off", 0); }
	else {
		long long off = 0; long long b = block_of(addr, &off);
		size_t n = 0; for(auto &kv : blocks().live) if(blocks().id_of(kv.first) == b) n = kv.second;
		ev.str("vc", n == sizeof(Tree::link_node) ? "link" : "mask").i("b", b).i("off", off);
	}
}
static long long ptr_to_block(const void *p) { return block_of(p); }

struct WOp { std::string op; int k; };

struct Scenario {
	std::vector<uint64_t> keys;                 // key index (1-based) -> 64-bit key
	std::vector<WOp> script;
	std::vector<std::vector<int>> rkeys;        // per reader: key indices
};

static std::string nibbles(uint64_t k) { std::vector<long long> v; for(int i = 0; i < 16; i++) v.push_back((k >> (60 - 4 * i)) & 0xF); return jarr(v); }

static void execute(const Scenario &sc, const std::vector<int> *schedule, Rng *rng) {
	blocks().reset();
	vars().clear();
	int nthreads = 1 + (int)sc.rkeys.size();
	{
		std::string ks = "[";
		for(size_t i = 0; i < sc.keys.size(); i++) { if(i) ks += ","; ks += nibbles(sc.keys[i]); }
		Ev("Reset").i("threads", nthreads).raw("keys", ks + "]").emit();
	}
	blocks().log_events = true;
	auto tree = std::make_unique<Tree>();
	g_root_addr = &tree->_root;
	vars().names[(uintptr_t)g_root_addr] = "root";
	access_decor() = decor;
	ptr_intern() = ptr_to_block;
	std::vector<long long> gen(sc.keys.size() + 1, 0);
	std::vector<int> infind(sc.keys.size() + 1, 0);
	static Sched s;
	s.start(nthreads, [&](int t) {
		if(t == 0) {
			for(auto &o : sc.script) {
				uint64_t k = sc.keys[o.k - 1];
				if(o.op == "ins") {
					// memory that held a value before is reused only after readers of that key are gone
					while(gen[o.k] > 0 && infind[o.k] > 0) seam_yield(0);
					Ev("WCall").str("op", "ins").i("k", o.k).emit();
					cur_op() = "foi";
					auto r = tree->find_or_insert(k, k, (long long)o.k, gen[o.k] + 1);
					cur_op() = "";
					bool ins = r.template get<1>();
					if(ins) gen[o.k]++;
					Ev("WRet").str("op", "ins").i("k", o.k).i("r", addr_id(r.template get<0>())).i("ins", ins ? 1 : 0).emit();
				} else {
					Ev("WCall").str("op", "erase").i("k", o.k).emit();
					cur_op() = "erase"; tree->erase(k); cur_op() = "";
					Ev("WRet").str("op", "erase").i("k", o.k).i("r", 0).i("ins", 0).emit();
				}
				seam_yield(1);
			}
		} else {
			for(int ki : sc.rkeys[t - 1]) {
				uint64_t k = sc.keys[ki - 1];
				infind[ki]++;
				Ev("FindCall").i("t", t).i("k", ki).emit();
				cur_op() = "find";
				Val *p = tree->find(k);
				cur_op() = "";
				// the caller uses what it found: read the value right away
				long long vk = 0, vg = 0, ok = 0;
				if(p) { vk = p->kidx; vg = p->gen; ok = (p->ok() && p->key == k) ? 1 : 0; }
				Ev("FindRet").i("t", t).i("k", ki).i("r", addr_id(p)).i("vk", vk).i("vg", vg).i("ok", ok).emit();
				infind[ki]--;
				seam_yield(1);
			}
		}
		Ev("ThreadDone").i("t", t).emit();
	});
	if(schedule) { for(int t : *schedule) s.step(t); }
	else {
		long long steps = 0; int last = 0;
		while(!s.all_done()) {
			int t = rng->coin(50) ? last : (int)rng->below(nthreads);
			if(s.is_done(t)) { t = (int)rng->below(nthreads); if(s.is_done(t)) continue; }
			last = t; s.step(t);
			if(++steps > 1000000) { Ev("stall").str("why", "step limit").emit(); break; }
		}
	}
	bool complete = s.all_done();
	s.finish();
	blocks().log_events = false;
	access_decor() = nullptr; ptr_intern() = nullptr;
	Ev("End").i("complete", complete ? 1 : 0).emit();
	log_accesses() = false;     // the destructor's accesses are not part of the concurrent execution
	// a writer torn down in the middle of an insertion leaves a half-linked tree: it is abandoned, not destroyed
	if(complete) tree.reset(); else (void)tree.release();
	log_accesses() = true;
}

static uint64_t embed(const J &digits, const std::vector<int> &pos) {
	uint64_t k = 0x7777777777777777ull;
	for(size_t i = 0; i < digits.size(); i++) {
		int sh = 60 - 4 * pos[i];
		k = (k & ~(0xFull << sh)) | ((uint64_t)((digits[i].n * 5 + 1) & 0xF) << sh);
	}
	return k;
}

int main(int argc, char **argv) {
	Args a(argc, argv);
	install_terminate();
	long long from = a.num("from", 0);
	if(a.has("random")) {
		long long n = a.num("random", 10);
		int nreaders = a.num("readers", 3), wlen = a.num("wlen", 12), rlen = a.num("rlen", 8), nk = a.num("nkeys", 6);
		for(long long i = 0; i < n; i++) {
			Rng rng(a.num("seed", 1) * 9176 + i);
			Scenario sc;
			uint64_t base = rng.next();
			while((int)sc.keys.size() < nk) {
				uint64_t k; int mode = rng.below(5);
				if(mode == 0) k = rng.next();
				else if(mode == 1) k = base ^ ((rng.below(15) + 1) << (4 * rng.below(16)));
				else if(mode == 2) k = (base & ~0xFull) | rng.below(16);
				else if(mode == 3) k = rng.coin() ? 0 : ~0ull;
				else { int keep = rng.below(16); uint64_t m = keep ? (~0ull << (64 - 4 * keep)) : 0; k = (base & m) | (rng.next() & ~m); }
				bool dup = false; for(auto x : sc.keys) if(x == k) dup = true;
				if(!dup) sc.keys.push_back(k);
			}
			std::vector<bool> present(nk + 1, false);
			for(int j = 0; j < wlen; j++) {
				int k = rng.below(nk) + 1;
				if(present[k] && rng.coin(60)) { sc.script.push_back({"erase", k}); present[k] = false; }
				else { sc.script.push_back({"ins", k}); present[k] = true; }
			}
			for(int r = 0; r < nreaders; r++) { std::vector<int> ks; for(int j = 0; j < rlen; j++) ks.push_back(rng.below(nk) + 1); sc.rkeys.push_back(ks); }
			if(i >= from) execute(sc, nullptr, &rng);
			hist_done(i);
		}
		return 0;
	}
	// scripted: scenario from the command line (model keys as digit tuples), schedules on stdin
	J script = parse_json(a.str("script", "[]")), rkeys = parse_json(a.str("rkeys", "[]"));
	std::vector<int> pos;
	{ std::string ps = a.str("pos", "0,7,15"); size_t p = 0; while(p < ps.size()) { size_t e = ps.find(',', p); if(e == std::string::npos) e = ps.size(); pos.push_back(atoi(ps.substr(p, e - p).c_str())); p = e + 1; } }
	Scenario sc;
	std::map<uint64_t, int> idx;
	auto key_index = [&](const J &digits) { uint64_t k = embed(digits, pos); auto it = idx.find(k); if(it != idx.end()) return it->second; sc.keys.push_back(k); return idx[k] = (int)sc.keys.size(); };
	for(size_t i = 0; i < script.size(); i++) sc.script.push_back({script[i][0].s, key_index(script[i][1])});
	for(size_t r = 0; r < rkeys.size(); r++) { std::vector<int> ks; for(size_t j = 0; j < rkeys[r].size(); j++) ks.push_back(key_index(rkeys[r][j])); sc.rkeys.push_back(ks); }
	std::string line; long long n = 0;
	while(read_line(line)) {
		if(line.empty()) continue;
		if(n >= from) { J j = parse_json(line); std::vector<int> sch; for(size_t i = 0; i < j.size(); i++) sch.push_back((int)j[i].n); execute(sc, &sch, nullptr); }
		hist_done(n); n++;
	}
	return 0;
}

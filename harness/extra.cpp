// Beyond the listed properties: helpers no property names (escape_fmt, to_allocated_string), run against FmtOps.tla
// through spec/Fmt/ExtraTrace.tla.  Mismatches are NOTEs, never verdicts.  Built without UBSan's nonnull-attribute
// check: basic_string::resize() of a default-constructed string calls memcpy(dst, nullptr, 0), which every call of
// to_allocated_string goes through (recorded in DESIGN.md as an observation outside the listed properties).
#include <new>
#include "common/trace.hpp"
#include <frg/string.hpp>
#include <frg/formatting.hpp>

using namespace vt;
struct StdAlloc { void *allocate(size_t n) { return malloc(n); } void free(void *p) { ::free(p); } void deallocate(void *p, size_t) { ::free(p); } };
struct ByteSink { std::vector<long long> bytes; void append(char c) { bytes.push_back((unsigned char)c); } void append(const char *s) { while(*s) append(*s++); } };

int main(int argc, char **argv) {
	Args a(argc, argv);
	install_terminate();
	long long from = a.num("from", 0);
	std::string line; long long idx = 0;
	while(read_line(line)) {
		if(line.empty()) continue;
		if(idx >= from) {
			J j = parse_json(line);
			Ev("Reset").str("mode", "extra").emit();
			try {
				std::vector<long long> in; const J *jb = j.get("in"); for(size_t i = 0; jb && i < jb->size(); i++) in.push_back((*jb)[i].n);
				char *buf = (char *)malloc(in.size() ? in.size() : 1); for(size_t i = 0; i < in.size(); i++) buf[i] = (char)in[i];
				ByteSink sink;
				frg::format(frg::escape_fmt(buf, in.size()), sink);
				free(buf);
				long long v = j.num("v"), radix = j.num("radix", 10), prec = j.num("prec", 1);
				StdAlloc pool;
				auto str = frg::to_allocated_string(pool, (unsigned long)v, (int)radix, (size_t)prec);
				std::vector<long long> sb; for(size_t i = 0; i < str.size(); i++) sb.push_back((unsigned char)str[i]);
				Ev("Extra").raw("in", jarr(in)).raw("escaped", jarr(sink.bytes)).i("v", v).i("radix", radix).i("prec", prec).raw("tostr", jarr(sb)).emit();
			} catch(Panic &) {}
		}
		hist_done(idx); idx++;
	}
	return 0;
}

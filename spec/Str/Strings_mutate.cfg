CONSTANTS
  Alphabet = {97, 98, 0}
  MaxLen = 4
  Mode = "mutate"
INIT Init
NEXT Next
VIEW View
INVARIANT TypeOK
ACTION_CONSTRAINT Emit
CHECK_DEADLOCK FALSE

CONSTANTS
  Alphabet = {97, 98, 0}
  MaxLen = 4
  Mode = "pairs"
INIT Init
NEXT Next
INVARIANT TypeOK
CONSTRAINT EmitPair
CHECK_DEADLOCK FALSE

------------------------------- MODULE Strings -------------------------------
(* Generator model for C15: (1) every pair of strings over the alphabet up to MaxLen *)
(* (the pure observers are evaluated on each pair), (2) the closed graph of an owned  *)
(* string under its mutating operations with arguments drawn from a small string set. *)
EXTENDS Integers, Sequences, FiniteSets, TLC, StringOps, Json

CONSTANTS Alphabet, MaxLen, Mode      \* Mode = "pairs" | "mutate"
VARIABLES a, b, hist
vars == <<a, b>>

RECURSIVE StringsUpTo(_)
StringsUpTo(n) == IF n = 0 THEN {<<>>} ELSE LET S == StringsUpTo(n - 1) IN S \cup {Append(x, c) : x \in {y \in S : Len(y) = n - 1}, c \in Alphabet}
Str == StringsUpTo(MaxLen)
Args == StringsUpTo(2)

Init == /\ hist = <<>>
        /\ IF Mode = "pairs" THEN a \in Str /\ b \in Str ELSE a = <<>> /\ b = <<>>

MutOps == [name : {"assign_cstr", "assign_ptrlen", "from_view", "append_view", "plus_view"}, x : Args, n : {0}]
          \cup [name : {"append_char", "push_back", "plus_char"}, x : {<<c>> : c \in Alphabet}, n : {0}]
          \cup [name : {"resize"}, x : {<<>>}, n : 0..MaxLen]
          \cup [name : {"copy", "assign_self_copy"}, x : {<<>>}, n : {0}]
Eff(op, s) ==
  CASE op.name = "assign_cstr" -> CStr(op.x)
    [] op.name \in {"assign_ptrlen", "from_view"} -> op.x
    [] op.name \in {"append_view", "plus_view", "append_char", "push_back", "plus_char"} -> s \o op.x
    [] op.name = "resize" -> SubSeq(s, 1, IF op.n < Len(s) THEN op.n ELSE Len(s)) \o [i \in 1..(IF op.n > Len(s) THEN op.n - Len(s) ELSE 0) |-> 0]
    [] OTHER -> s
Next == /\ Mode = "mutate"
        /\ \E op \in MutOps : /\ Len(Eff(op, a)) <= MaxLen
                              /\ a' = Eff(op, a) /\ b' = b /\ hist' = Append(hist, op)
View == vars
EmitPair == Mode = "pairs" => PrintT(<<"H", ToJson([a |-> a, b |-> b])>>)
Emit == PrintT(<<"H", ToJson(hist')>>)
TypeOK == Len(a) <= MaxLen
=============================================================================

----------------------------- MODULE StringsTrace -----------------------------
(* Trace specification for C15: every observation of the real string / view must   *)
(* equal the reference operation of StringOps.tla on the same character sequences.   *)
EXTENDS Integers, Sequences, FiniteSets, TLC, StringOps, TraceBase

VARIABLES s, l, nchk
svars == <<s>>
tvars == <<svars, l, nchk>>

PairOK(ev) ==
  LET a == ev.a
      b == ev.b IN
  /\ G("C15", "ViewEquality", ev.eq_view = B(a = b))
  /\ G("C15", "StringCompareLengthFirst", ev.cmp = Compare(a, b) /\ ev.eq_str = B(a = b))
  /\ G("C15", "CompareWithCString", ev.cmp_c = Compare(a, CStr(b)) /\ ev.eq_c = B(a = CStr(b)))
  /\ G("C15", "FindFirst", \A i \in 1..Len(ev.find_first) : LET r == ev.find_first[i] IN r[2] = FindFirst(a, r[1], 0) /\ r[3] = FindFirst(a, r[1], 1))
  /\ G("C15", "FindLast", \A i \in 1..Len(ev.find_last) : ev.find_last[i][2] = FindLast(a, ev.find_last[i][1]))
  /\ G("C15", "FindFirstOf", ev.ffo0 = FindFirstOf(a, b, 0) /\ ev.ffo1 = FindFirstOf(a, b, 1))
  /\ G("C15", "StartsEndsWith", ev.starts = B(StartsWith(a, b)) /\ ev.ends = B(EndsWith(a, b)) /\ ev.sstarts = ev.starts /\ ev.sends = ev.ends)
  /\ G("C15", "SubString", \A i \in 1..Len(ev.sub) : ev.sub[i][3] = SubString(a, ev.sub[i][1], ev.sub[i][2]))
  /\ G("C15", "HashOfViewAndStringAgreeWithRecurrence", ev.hash_view = Hash(a) /\ ev.hash_str = Hash(a))
  /\ G("C15", "ConstructionFromCString", ev.from_cstr = CStr(a) /\ ev.view_cstr_len = Len(CStr(a)))
  /\ G("C15", "ConstructionFromViewCopyAssign", ev.from_view = a /\ ev.copy = a /\ ev.assigned = a /\ ev.view_back = a)
  /\ G("C15", "Concatenation", ev.plus = a \o b /\ ev.plus_char = Append(a, 97) /\ ev.append = a \o b)
  /\ G("C15", "FillConstructor", ev.fill = [i \in 1..Len(a) |-> 98])
  /\ G("C15", "IndexingAndIteration", ev.index_str = a /\ ev.index_view = a /\ ev.iter = a /\ ev.citer = a)
  /\ G("C15", "SizeAndEmptiness", ev.sizes = Len(a) * 100 + Len(a) /\ ev.empties = B(a = <<>>) + 2)
  /\ G("C15", "OwnedStringsStayTerminated", ev.term = 1 /\ ev.term2 = 1 /\ ev.term3 = 1)

\* expected contents after a mutating operation on the owned string s
NewS(ev) ==
  CASE ev.name = "assign_cstr" -> CStr(ev.x)
    [] ev.name \in {"assign_ptrlen", "from_view"} -> ev.x
    [] ev.name \in {"append_view", "plus_view", "append_char", "push_back", "plus_char"} -> s \o ev.x
    [] ev.name = "resize" -> SubSeq(s, 1, IF ev.n < Len(s) THEN ev.n ELSE Len(s)) \o [i \in 1..(IF ev.n > Len(s) THEN ev.n - Len(s) ELSE 0) |-> 0]
    [] OTHER -> s

Accepts(ev) ==
  CASE ev.e = "Pair" -> PairOK(ev)
    [] ev.e = "MOp" ->
         /\ G("C15", "ContentsAfterMutation", ev.contents = NewS(ev))
         /\ G("C15", "SizeAndEmptiness", ev.size = Len(NewS(ev)) /\ ev.empty = B(NewS(ev) = <<>>))
         /\ G("C15", "OwnedStringsStayTerminated", ev.term = 1)
    [] ev.e = "Num" ->
         /\ G("C15", "ToNumberOfDigitStrings", ev.r = ToNumber(ev.s) /\ ev.u = ToNumber(ev.s))
         /\ G("C15", "ToNumberRejectsNonDigits", ev.has = B(ToNumber(ev.s) # -1))
    [] ev.e = "End" -> G("C16", "StringsGiveTheirBlocksBack", ev.live_blocks = 0)
    [] ev.e = "panic" -> G("C15", "NoPanicInLegalState", FALSE)
    [] ev.e = "crash" -> G("C15", "NoReadOutsideViewOrBuffer_NoCrash", FALSE)
    [] ev.e = "hang" -> G("C15", "EveryCallReturns", FALSE)
    [] OTHER -> G("C15", "UnmatchableEvent", FALSE)

Apply(ev) == IF ev.e = "MOp" THEN s' = NewS(ev) ELSE UNCHANGED s
TraceInit == s = <<>> /\ l = 1 /\ nchk = 0 /\ InitDiag
TraceNext ==
  \/ /\ l <= NLines
     /\ LET ev == TraceLog[l] IN
        IF ev.e = "Reset" THEN s' = <<>> /\ l' = l + 1 /\ nchk' = nchk
        ELSE IF Accepts(ev) THEN Apply(ev) /\ l' = l + 1 /\ nchk' = nchk + 1
        ELSE ReportReject(l) /\ l' = NextResetFrom(l + 1) /\ UNCHANGED <<svars, nchk>>
  \/ /\ l = NLines + 1 /\ ReportDone(nchk) /\ l' = l + 1 /\ UNCHANGED <<svars, nchk>>
Sane == Len(s) >= 0
=============================================================================

------------------------------ MODULE StringOps ------------------------------
(* Reference meaning of frigg's basic_string / basic_string_view operations          *)
(* (property C15) on strings represented as sequences of character codes (0 = NUL).   *)
(* Constant-free; used by the generator model (Strings.tla) and by StringsTrace.tla.  *)
EXTENDS Integers, Sequences, FiniteSets

NPos == -1
\* what a C-string constructor sees of a buffer: the characters before the first NUL
RECURSIVE CStr(_)
CStr(x) == IF x = <<>> \/ x[1] = 0 THEN <<>> ELSE <<x[1]>> \o CStr(Tail(x))

\* basic_string::compare: shorter strings order first, equal lengths lexicographically
RECURSIVE LexCmp(_, _)
LexCmp(a, b) == IF a = <<>> THEN 0 ELSE IF a[1] < b[1] THEN -1 ELSE IF a[1] > b[1] THEN 1 ELSE LexCmp(Tail(a), Tail(b))
Compare(a, b) == IF Len(a) # Len(b) THEN (IF Len(a) < Len(b) THEN -1 ELSE 1) ELSE LexCmp(a, b)

Positions(a, from) == {i \in (from + 1)..Len(a) : TRUE}
MinOf(S) == CHOOSE x \in S : \A y \in S : x <= y
MaxOf(S) == CHOOSE x \in S : \A y \in S : x >= y
\* 0-based results, NPos when there is none
FindFirst(a, c, from) == LET S == {i \in Positions(a, from) : a[i] = c} IN IF S = {} THEN NPos ELSE MinOf(S) - 1
FindFirstOf(a, chars, from) == LET S == {i \in Positions(a, from) : \E j \in 1..Len(chars) : a[i] = chars[j]} IN
                               IF S = {} THEN NPos ELSE MinOf(S) - 1
FindLast(a, c) == LET S == {i \in 1..Len(a) : a[i] = c} IN IF S = {} THEN NPos ELSE MaxOf(S) - 1
SubString(a, from, n) == SubSeq(a, from + 1, from + n)
StartsWith(a, b) == Len(b) <= Len(a) /\ SubSeq(a, 1, Len(b)) = b
EndsWith(a, b) == Len(b) <= Len(a) /\ SubSeq(a, Len(a) - Len(b) + 1, Len(a)) = b

RECURSIVE HashFrom(_, _)
HashFrom(h, a) == IF a = <<>> THEN h ELSE HashFrom(32 * h + a[1], Tail(a))     \* hash += 31 * hash + c
Hash(a) == HashFrom(0, a)

IsDigit(c) == c >= 48 /\ c <= 57
RECURSIVE NumFrom(_, _)
NumFrom(v, a) == IF a = <<>> THEN v ELSE NumFrom(10 * v + (a[1] - 48), Tail(a))
\* to_number: the value of a digit string (the empty string is 0), none (-1) if any other character occurs
ToNumber(a) == IF \A i \in 1..Len(a) : IsDigit(a[i]) THEN NumFrom(0, a) ELSE -1

Resize(a, n) == IF n <= Len(a) THEN SubSeq(a, 1, n) ELSE a \o [i \in 1..(n - Len(a)) |-> -2]   \* -2: unspecified new characters
B(b) == IF b THEN 1 ELSE 0
=============================================================================

CONSTANTS
  Alphabet = {97,61,34,32,49}
  MaxLen = 8
  Must = 0
INIT Init
NEXT Next
CONSTRAINT EmitInput
CHECK_DEADLOCK FALSE

CONSTANTS
  Alphabet = {37,100,115,99,49,57,36,42,46,45,48,108,104,120}
  MaxLen = 4
  Must = 37
INIT Init
NEXT Next
CONSTRAINT EmitInput
CHECK_DEADLOCK FALSE

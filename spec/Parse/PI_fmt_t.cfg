CONSTANTS
  Alphabet = {123,125,58,48,57,120,97}
  MaxLen = 7
  Must = 0
INIT Init
NEXT Next
CONSTRAINT EmitInput
CHECK_DEADLOCK FALSE

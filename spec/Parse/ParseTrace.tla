------------------------------ MODULE ParseTrace ------------------------------
(* Outcome contract of property C20 for the four parsers, checked on every input:  *)
(* the call terminates (a call that does not return, a sanitizer report and a crash  *)
(* are events no action matches), it either completes or stops through the library's  *)
(* assertion hook, printf fetches no variadic argument beyond those supplied, option    *)
(* targets point into the command line; and on the inputs whose meaning is defined the   *)
(* functional result is the reference one (fmt grammar, unquoted command lines,          *)
(* to_number of strings that fit).                                                       *)
EXTENDS Integers, Sequences, FiniteSets, TLC, StringOps, TraceBase

VARIABLES l, nchk
F == INSTANCE FmtOps

\* ---- to_number reference on digit strings, as canonical decimal digit sequences
RECURSIVE StripZeros(_)
StripZeros(q) == IF Len(q) > 1 /\ q[1] = 48 THEN StripZeros(Tail(q)) ELSE q
AllDigits(q) == \A i \in 1..Len(q) : IsDigit(q[i])
RECURSIVE LexLE(_, _)
LexLE(a, b) == IF a = <<>> THEN TRUE ELSE IF a[1] < b[1] THEN TRUE ELSE IF a[1] > b[1] THEN FALSE ELSE LexLE(Tail(a), Tail(b))
Fits(c, mx) == Len(c) < Len(mx) \/ (Len(c) = Len(mx) /\ LexLE(c, mx))
\* the value as digits (the empty string is 0), <<>> for "no number"; a value that does not fit the type is no number
NumberAs(q, mx) == IF ~AllDigits(q) THEN <<>>
                   ELSE LET c == StripZeros(IF q = <<>> THEN <<48>> ELSE q) IN IF Fits(c, mx) THEN c ELSE <<>>
MaxInt == <<50,49,52,55,52,56,51,54,52,55>>                                   \* 2147483647
MaxUInt == <<52,50,57,52,57,54,55,50,57,53>>                                  \* 4294967295
MaxI64 == <<57,50,50,51,51,55,50,48,51,54,56,53,52,55,55,53,56,48,55>>        \* 9223372036854775807
MaxU64 == <<49,56,52,52,54,55,52,52,48,55,51,55,48,57,53,53,49,54,49,53>>     \* 18446744073709551615

\* ---- command line reference for inputs without quotes: space-separated tokens, option table 0 = {a: flag, aa: string, 1: number}
RECURSIVE Split(_, _)
Split(q, cur) == IF q = <<>> THEN <<cur>> ELSE IF q[1] = 32 THEN <<cur>> \o Split(Tail(q), <<>>) ELSE Split(Tail(q), Append(cur, q[1]))
NoQuotes(q) == \A i \in 1..Len(q) : q[i] # 34
EqPos(t) == LET S == {i \in 1..Len(t) : t[i] = 61} IN IF S = {} THEN 0 ELSE CHOOSE i \in S : \A j \in S : i <= j
RECURSIVE ApplyTokens(_, _)
ApplyTokens(ts, st) ==
  IF ts = <<>> THEN st
  ELSE LET t == ts[1]
           e == EqPos(t)
           name == IF e = 0 THEN t ELSE SubSeq(t, 1, e - 1)
           val == IF e = 0 THEN <<>> ELSE SubSeq(t, e + 1, Len(t))
           st1 == IF e = 0 /\ name = <<97>> THEN [st EXCEPT !.flag = 1]
                  ELSE IF e = 0 /\ name = <<49>> THEN [st EXCEPT !.flag2 = 1]      \* the flag option "1" (fourth in the table)
                  ELSE IF e # 0 /\ name = <<97, 97>> THEN [st EXCEPT !.sv = val]
                  ELSE IF e # 0 /\ name = <<49>> /\ NumberAs(val, MaxUInt) # <<>> THEN [st EXCEPT !.num = NumberAs(val, MaxUInt)]
                  ELSE st IN
       ApplyTokens(Tail(ts), st1)
CmdRef(q) == ApplyTokens(Split(q, <<>>), [flag |-> 0, flag2 |-> 0, sv |-> <<>>, num |-> <<48>>])
RECURSIVE DigitsOfNat(_)
DigitsOfNat(v) == IF v < 10 THEN <<48 + v>> ELSE DigitsOfNat(v \div 10) \o <<48 + (v % 10)>>

\* TLC integers are 32-bit: the functional reference is only evaluated when every digit run is short
RECURSIVE LongestRun(_, _, _)
LongestRun(q, cur, best) == IF q = <<>> THEN (IF cur > best THEN cur ELSE best)
                            ELSE IF IsDigit(q[1]) THEN LongestRun(Tail(q), cur + 1, best)
                            ELSE LongestRun(Tail(q), 0, IF cur > best THEN cur ELSE best)
ShortNumbers(q) == LongestRun(q, 0, 0) <= 8

Accepts(ev) ==
  CASE ev.e = "Parsed" ->
         /\ G("C20", "CompletesOrStopsThroughTheAssertionHook", ev.outcome \in {"completed", "assertion", "agent-error", "output-limit"})
         /\ G("C20", "NoVariadicArgumentBeyondThoseSupplied", ev.fetches <= ev.supplied)
         /\ (ev.parser # "fmt" \/
             (/\ G("C20", "FmtIsTotal", ev.outcome \in {"completed", "output-limit"})
              /\ G("C20", "FmtResultAsDocumented",
                   ~ShortNumbers(ev["in"]) \/ ev.outcome # "completed" \/ ev.out = F!Render(ev["in"], <<[kind |-> "int", v |-> 10, s |-> <<>>], [kind |-> "int", v |-> 200, s |-> <<>>], [kind |-> "str", v |-> 0, s |-> <<115>>]>>))))
         /\ (ev.parser # "cmdline" \/
             (/\ G("C20", "OptionTargetsPointIntoTheCommandLine", ev.targets_inside = 1)
              \* a command line without quotes is a defined input: the parser has nothing to assert about it
              /\ G("C20", "UnquotedCommandLineCompletes", NoQuotes(ev["in"]) => ev.outcome = "completed")
              /\ G("C20", "UnquotedCommandLineMeaning",
                   (ev.table = 0 /\ NoQuotes(ev["in"]) /\ ev.outcome = "completed" /\ ev.num < 1000000000 /\ ShortNumbers(ev["in"])) =>
                      LET r == CmdRef(ev["in"]) IN ev.flag = r.flag /\ ev.flag2 = r.flag2 /\ ev.sv = r.sv /\ DigitsOfNat(ev.num) = r.num)))
         /\ (ev.parser # "to_number" \/
             (/\ G("C20", "ToNumberIsTotal", ev.outcome = "completed")
              /\ G("C20", "ToNumberValueOrNone", /\ ev.int = NumberAs(ev["in"], MaxInt) /\ ev.uint = NumberAs(ev["in"], MaxUInt)
                                                 /\ ev.int64 = NumberAs(ev["in"], MaxI64) /\ ev.uint64 = NumberAs(ev["in"], MaxU64))))
    [] ev.e = "panic" -> G("C20", "AssertionOutsideTheHarnessHandler", FALSE)
    [] ev.e = "crash" -> G("C20", "NoUndefinedBehaviour_NoSanitizerReport", FALSE)
    [] ev.e = "hang" -> G("C20", "ParsingTerminates", FALSE)
    [] OTHER -> G("C20", "UnmatchableEvent", FALSE)

TraceInit == l = 1 /\ nchk = 0 /\ InitDiag
TraceNext ==
  \/ /\ l <= NLines
     /\ LET ev == TraceLog[l] IN
        IF ev.e = "Reset" THEN l' = l + 1 /\ nchk' = nchk
        ELSE IF ev.e = "panic" THEN l' = l + 1 /\ nchk' = nchk       \* the assertion hook fired: the Parsed event that follows carries outcome "assertion"
        ELSE IF Accepts(ev) THEN l' = l + 1 /\ nchk' = nchk + 1
        ELSE ReportReject(l) /\ l' = NextResetFrom(l + 1) /\ UNCHANGED nchk
  \/ /\ l = NLines + 1 /\ ReportDone(nchk) /\ l' = l + 1 /\ UNCHANGED nchk
Sane == l >= 1
=============================================================================

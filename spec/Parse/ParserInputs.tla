---------------------------- MODULE ParserInputs ----------------------------
(* Input language of property C20: every byte string over a reduced alphabet of the *)
(* syntactically relevant characters up to MaxLen (optionally only those containing  *)
(* the character Must, e.g. '%' for printf).                                          *)
EXTENDS Integers, Sequences, FiniteSets, TLC, Json
CONSTANTS Alphabet, MaxLen, Must
VARIABLES inp
RECURSIVE Strs(_)
Strs(n) == IF n = 0 THEN {<<>>} ELSE LET S == Strs(n - 1) IN S \cup {Append(x, c) : x \in {y \in S : Len(y) = n - 1}, c \in Alphabet}
Init == inp \in Strs(MaxLen)
Next == UNCHANGED inp
Relevant == Must = 0 \/ \E i \in 1..Len(inp) : inp[i] = Must
EmitInput == Relevant => PrintT(<<"H", ToJson([in |-> inp])>>)
=============================================================================

CONSTANTS
  Alphabet = {37,122,116,106,76,43,35,32,39,117,105,111,88,112}
  MaxLen = 3
  Must = 37
INIT Init
NEXT Next
CONSTRAINT EmitInput
CHECK_DEADLOCK FALSE

CONSTANTS
  Alphabet = {48,49,57,45,97}
  MaxLen = 7
  Must = 0
INIT Init
NEXT Next
CONSTRAINT EmitInput
CHECK_DEADLOCK FALSE

------------------------------ MODULE MCPrintf ------------------------------
EXTENDS Printf
Bools == {TRUE, FALSE}
AllFlags == [minus : Bools, plus : Bools, space : Bools, hash : Bools, zero : Bools, quote : {FALSE}]
QuoteFlags == [minus : Bools, plus : {FALSE}, space : {FALSE}, hash : {FALSE}, zero : Bools, quote : {TRUE}]
QuickFlags == AllFlags \cup QuoteFlags
=============================================================================

------------------------------- MODULE Printf -------------------------------
(* Generator of the directive space of C19: flags x width x precision x length       *)
(* modifier x conversion x value class; one record per combination.  The driver       *)
(* turns a record into a format string with concrete boundary values.                 *)
EXTENDS Integers, Sequences, FiniteSets, TLC, Json
CONSTANTS FlagSets, Widths, Precs, Lens, Convs, Vals
VARIABLES dir
Init == dir \in [flags : FlagSets, width : Widths, prec : Precs, len : Lens, conv : Convs, val : Vals]
Next == UNCHANGED dir
\* combinations ISO C leaves undefined are not generated: '#' with d i u, '0' with c s, precision with c,
\* length modifiers with c s p, flags other than '-' with s c, anything with p
Defined ==
  /\ (dir.conv \in {"d", "i", "u"} => ~dir.flags.hash)
  /\ (dir.conv \in {"s", "c"} => (~dir.flags.zero /\ ~dir.flags.hash /\ ~dir.flags.plus /\ ~dir.flags.space /\ ~dir.flags.quote /\ dir.len = ""))
  /\ (dir.conv = "c" => dir.prec = "")
  /\ (dir.conv = "p" => (dir.flags = [minus |-> FALSE, plus |-> FALSE, space |-> FALSE, hash |-> FALSE, zero |-> FALSE, quote |-> FALSE]
                          /\ dir.width = "" /\ dir.prec = "" /\ dir.len = ""))
EmitDir == Defined => PrintT(<<"H", ToJson(dir)>>)
=============================================================================

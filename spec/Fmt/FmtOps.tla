------------------------------- MODULE FmtOps -------------------------------
(* The documented {}-specification grammar of frg::fmt (property C19):               *)
(*     '{' [position] [ ':' ['0'] [width] [b|c|d|i|o|x|X] ] '}'      '{{' is a literal '{'  *)
(* A malformed specification, one whose position is out of range, and an unclosed one  *)
(* are echoed unchanged.  Arguments: [kind |-> "int"|"char"|"str", v, s].               *)
EXTENDS Integers, Sequences, FiniteSets

IsDigit(c) == c >= 48 /\ c <= 57
RECURSIVE Num(_, _)
Num(acc, q) == IF q = <<>> THEN acc ELSE Num(10 * acc + (q[1] - 48), Tail(q))
RECURSIVE DigitPrefixLen(_, _)
DigitPrefixLen(q, i) == IF i <= Len(q) /\ IsDigit(q[i]) THEN DigitPrefixLen(q, i + 1) ELSE i - 1
FirstIndex(q, c, from) == LET S == {j \in from..Len(q) : q[j] = c} IN IF S = {} THEN 0 ELSE CHOOSE j \in S : \A k \in S : j <= k
ConvChars == {98, 99, 100, 105, 111, 120, 88}      \* b c d i o x X

Parse(spec) ==
  LET colon == FirstIndex(spec, 58, 1)
      posPart == IF colon = 0 THEN spec ELSE SubSeq(spec, 1, colon - 1)
      rest == IF colon = 0 THEN <<>> ELSE SubSeq(spec, colon + 1, Len(spec))
      wl == DigitPrefixLen(rest, 1)
      after == SubSeq(rest, wl + 1, Len(rest)) IN
  [ok |-> (\A i \in 1..Len(posPart) : IsDigit(posPart[i])) /\ (after = <<>> \/ (Len(after) = 1 /\ after[1] \in ConvChars)),
   posset |-> posPart # <<>>, pos |-> Num(0, posPart),
   fill |-> rest # <<>> /\ rest[1] = 48, width |-> Num(0, SubSeq(rest, 1, wl)),
   conv |-> IF after = <<>> THEN 0 ELSE after[1]]

HexDigit(d, upper) == IF d < 10 THEN 48 + d ELSE (IF upper THEN 55 ELSE 87) + d
RECURSIVE DigitsOf(_, _, _)
DigitsOf(v, radix, upper) == IF v < radix THEN <<HexDigit(v, upper)>> ELSE DigitsOf(v \div radix, radix, upper) \o <<HexDigit(v % radix, upper)>>
PadLeft(q, w, c) == [i \in 1..(IF w > Len(q) THEN w - Len(q) ELSE 0) |-> c] \o q
RadixOf(conv) == CASE conv \in {120, 88} -> 16 [] conv = 111 -> 8 [] conv = 98 -> 2 [] OTHER -> 10

RenderArg(a, P) ==
  CASE a.kind = "str" -> a.s
    [] a.kind = "char" /\ P.conv = 99 -> <<a.v>>
    [] OTHER -> PadLeft(DigitsOf(a.v, RadixOf(P.conv), P.conv = 88), P.width, IF P.fill THEN 48 ELSE 32)

RECURSIVE Scan(_, _, _, _)
Scan(f, i, cur, A) ==
  IF i > Len(f) THEN <<>>
  ELSE LET c == f[i]
           nx == IF i + 1 <= Len(f) THEN f[i + 1] ELSE 0 IN
       IF c = 123 /\ nx # 123
       THEN LET close == FirstIndex(f, 125, i + 1) IN
            IF close = 0 THEN SubSeq(f, i, Len(f))
            ELSE LET P == Parse(SubSeq(f, i + 1, close - 1))
                     pos == IF P.posset THEN P.pos ELSE cur IN
                 (IF P.ok /\ pos < Len(A) THEN RenderArg(A[pos + 1], P) ELSE SubSeq(f, i, close)) \o Scan(f, close + 1, cur + 1, A)
       ELSE IF c = 123 THEN <<123>> \o Scan(f, i + 2, cur, A)
       ELSE <<c>> \o Scan(f, i + 1, cur, A)
Render(f, A) == Scan(f, 1, 0, A)

\* inputs for which the documentation is silent are not generated: conversion c on an integer argument
Documented(f, A) == TRUE

\* ---- beyond the listed properties (reported as NOTE, never as a verdict) ---------------------------------------------
\* escape_fmt: letters, digits, blank and the punctuation below pass; \\ " ' newline tab get a backslash form; every other
\* byte becomes \x{<lower-case hex, no padding>}
Punct == {33, 35, 36, 37, 38, 40, 41, 42, 43, 44, 45, 46, 47, 58, 59, 60, 61, 62, 63, 64, 91, 93, 94, 95, 96, 123, 124, 125, 126}
EscapeChar(c) ==
  IF c \in 97..122 \/ c \in 65..90 \/ c \in 48..57 \/ c = 32 \/ c \in Punct THEN <<c>>
  ELSE IF c = 92 THEN <<92, 92>> ELSE IF c = 34 THEN <<92, 34>> ELSE IF c = 39 THEN <<92, 39>>
  ELSE IF c = 10 THEN <<92, 110>> ELSE IF c = 9 THEN <<92, 116>>
  ELSE <<92, 120, 123>> \o DigitsOf(c, 16, FALSE) \o <<125>>
RECURSIVE Escape(_)
Escape(bs) == IF bs = <<>> THEN <<>> ELSE EscapeChar(Head(bs)) \o Escape(Tail(bs))
\* to_allocated_string(v, radix, precision): the digits of v (none for 0), left-padded with '0' to the precision
ToAllocatedString(v, radix, prec) ==
  LET ds == IF v = 0 THEN <<>> ELSE DigitsOf(v, radix, FALSE) IN
  [i \in 1..(IF prec > Len(ds) THEN prec - Len(ds) ELSE 0) |-> 48] \o ds
=============================================================================

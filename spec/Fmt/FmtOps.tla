------------------------------- MODULE FmtOps -------------------------------
(* The documented {}-specification grammar of frg::fmt (property C19):               *)
(*     '{' [position] [ ':' ['0'] [width] [b|c|d|i|o|x|X] ] '}'      '{{' is a literal '{'  *)
(* A malformed specification, one whose position is out of range, and an unclosed one  *)
(* are echoed unchanged.  Arguments: [kind |-> "int"|"char"|"str", v, s].               *)
EXTENDS Integers, Sequences, FiniteSets

IsDigit(c) == c >= 48 /\ c <= 57
RECURSIVE Num(_, _)
Num(acc, q) == IF q = <<>> THEN acc ELSE Num(10 * acc + (q[1] - 48), Tail(q))
RECURSIVE DigitPrefixLen(_, _)
DigitPrefixLen(q, i) == IF i <= Len(q) /\ IsDigit(q[i]) THEN DigitPrefixLen(q, i + 1) ELSE i - 1
FirstIndex(q, c, from) == LET S == {j \in from..Len(q) : q[j] = c} IN IF S = {} THEN 0 ELSE CHOOSE j \in S : \A k \in S : j <= k
ConvChars == {98, 99, 100, 105, 111, 120, 88}      \* b c d i o x X

Parse(spec) ==
  LET colon == FirstIndex(spec, 58, 1)
      posPart == IF colon = 0 THEN spec ELSE SubSeq(spec, 1, colon - 1)
      rest == IF colon = 0 THEN <<>> ELSE SubSeq(spec, colon + 1, Len(spec))
      wl == DigitPrefixLen(rest, 1)
      after == SubSeq(rest, wl + 1, Len(rest)) IN
  [ok |-> (\A i \in 1..Len(posPart) : IsDigit(posPart[i])) /\ (after = <<>> \/ (Len(after) = 1 /\ after[1] \in ConvChars)),
   posset |-> posPart # <<>>, pos |-> Num(0, posPart),
   fill |-> rest # <<>> /\ rest[1] = 48, width |-> Num(0, SubSeq(rest, 1, wl)),
   conv |-> IF after = <<>> THEN 0 ELSE after[1]]

HexDigit(d, upper) == IF d < 10 THEN 48 + d ELSE (IF upper THEN 55 ELSE 87) + d
RECURSIVE DigitsOf(_, _, _)
DigitsOf(v, radix, upper) == IF v < radix THEN <<HexDigit(v, upper)>> ELSE DigitsOf(v \div radix, radix, upper) \o <<HexDigit(v % radix, upper)>>
PadLeft(q, w, c) == [i \in 1..(IF w > Len(q) THEN w - Len(q) ELSE 0) |-> c] \o q
RadixOf(conv) == CASE conv \in {120, 88} -> 16 [] conv = 111 -> 8 [] conv = 98 -> 2 [] OTHER -> 10

RenderArg(a, P) ==
  CASE a.kind = "str" -> a.s
    [] a.kind = "char" /\ P.conv = 99 -> <<a.v>>
    [] OTHER -> PadLeft(DigitsOf(a.v, RadixOf(P.conv), P.conv = 88), P.width, IF P.fill THEN 48 ELSE 32)

RECURSIVE Scan(_, _, _, _)
Scan(f, i, cur, A) ==
  IF i > Len(f) THEN <<>>
  ELSE LET c == f[i]
           nx == IF i + 1 <= Len(f) THEN f[i + 1] ELSE 0 IN
       IF c = 123 /\ nx # 123
       THEN LET close == FirstIndex(f, 125, i + 1) IN
            IF close = 0 THEN SubSeq(f, i, Len(f))
            ELSE LET P == Parse(SubSeq(f, i + 1, close - 1))
                     pos == IF P.posset THEN P.pos ELSE cur IN
                 (IF P.ok /\ pos < Len(A) THEN RenderArg(A[pos + 1], P) ELSE SubSeq(f, i, close)) \o Scan(f, close + 1, cur + 1, A)
       ELSE IF c = 123 THEN <<123>> \o Scan(f, i + 2, cur, A)
       ELSE <<c>> \o Scan(f, i + 1, cur, A)
Render(f, A) == Scan(f, 1, 0, A)

\* inputs for which the documentation is silent are not generated: conversion c on an integer argument
Documented(f, A) == TRUE
=============================================================================

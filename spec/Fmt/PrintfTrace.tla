----------------------------- MODULE PrintfTrace -----------------------------
(* Trace specification for C19.  Case: one printf directive - frigg's bytes must be *)
(* the ISO C rendering (PrintfOps!Iso); where they are instead exactly the listed     *)
(* deviation (PrintfOps!FriggKnown) the rejection names the known finding.  The glibc  *)
(* output of the same call is compared with my ISO rendering under the pseudo-property *)
(* SPEC.  Fmt: the {}-grammar of FmtOps.  Logger: chunks concatenate to the text and    *)
(* each is shorter than the limit.                                                      *)
EXTENDS Integers, Sequences, FiniteSets, TLC, PrintfOps, TraceBase

VARIABLES l, nchk
tvars == <<l, nchk>>
F == INSTANCE FmtOps

B(x) == x = 1
DirOf(ev) == [conv |-> ev.d.conv, minus |-> B(ev.d.minus), plus |-> B(ev.d.plus), space |-> B(ev.d.space), hash |-> B(ev.d.hash),
              zero |-> B(ev.d.zero), width |-> ev.d.width, precGiven |-> B(ev.d.precGiven), prec |-> ev.d.prec,
              neg |-> B(ev.d.neg), digs |-> ev.d.digs, str |-> ev.d.str,
              minus0 |-> B(ev.d.minus0), starneg |-> B(ev.d.starneg)]
RECURSIVE Flatten(_)
Flatten(qs) == IF qs = <<>> THEN <<>> ELSE qs[1] \o Flatten(Tail(qs))

CaseOK(ev) ==
  LET d == DirOf(ev)
      iso == ev.d.pre \o Iso(d) \o ev.d.post IN
  /\ G("SPEC", "IsoRenderingAgreesWithGlibc", ev.defined = 1 => ev.ref = iso)
  /\ G("C19", "FormatCompletes", ev.ok = 1)
  /\ (ev.out = iso
      \/ (IF ev.out = ev.d.pre \o FriggKnown(d) \o ev.d.post
          THEN G("C19", "KnownDeviation_" \o DeviationClass(d), FALSE)
          ELSE G("C19", "ByteForByteWhatIsoCPrescribes", FALSE)))

Accepts(ev) ==
  CASE ev.e = "Case" -> CaseOK(ev)
    [] ev.e = "Fmt" ->
         G("C19", "FmtSpecGrammarAsDocumented",
           ev.out = F!Render(ev.fmt, <<[kind |-> "int", v |-> ev.x, s |-> <<>>], [kind |-> "int", v |-> ev.y, s |-> <<>>],
                                       [kind |-> "str", v |-> 0, s |-> ev.s]>>))
    [] ev.e = "Logger" ->
         /\ G("C19", "LoggerTextCompleteAndInOrder", Flatten(ev.chunks) = ev.text)
         /\ G("C19", "LoggerChunksShorterThanLimit", \A i \in 1..Len(ev.chunks) : Len(ev.chunks[i]) < ev.limit)
    [] ev.e = "panic" -> G("C19", "NoPanicOnDefinedDirective", FALSE)
    [] ev.e = "crash" -> G("C19", "NoCrash", FALSE)
    [] ev.e = "hang" -> G("C19", "EveryCallReturns", FALSE)
    [] OTHER -> G("C19", "UnmatchableEvent", FALSE)

TraceInit == l = 1 /\ nchk = 0 /\ InitDiag
TraceNext ==
  \/ /\ l <= NLines
     /\ LET ev == TraceLog[l] IN
        IF ev.e = "Reset" THEN l' = l + 1 /\ nchk' = nchk
        ELSE IF Accepts(ev) THEN l' = l + 1 /\ nchk' = nchk + 1
        ELSE ReportReject(l) /\ l' = NextResetFrom(l + 1) /\ UNCHANGED nchk
  \/ /\ l = NLines + 1 /\ ReportDone(nchk) /\ l' = l + 1 /\ UNCHANGED nchk
Sane == l >= 1
=============================================================================

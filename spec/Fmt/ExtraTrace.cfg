INIT TraceInit
NEXT TraceNext
INVARIANT Sane
CHECK_DEADLOCK FALSE

CONSTANTS
  FlagSets <- QuickFlags
  Widths = {"", "1", "2", "7", "9", "12", "19", "33", "70", "90", "*", "*-"}
  Precs = {"", ".0", ".1", ".3", ".9", ".12", ".19", ".33", ".70", ".*"}
  Lens = {"", "hh", "h", "l", "ll", "z", "t", "j"}
  Convs = {"d", "i", "u", "o", "x", "X", "s", "c", "p"}
  Vals = {0, 1, 2, 3, 4}
INIT Init
NEXT Next
CONSTRAINT EmitDir
CHECK_DEADLOCK FALSE

----------------------------- MODULE ExtraTrace -----------------------------
(* Beyond the listed properties: behaviour of the formatting helpers that no property  *)
(* names - escape_fmt and to_allocated_string - against FmtOps.  Every clause is under   *)
(* the pseudo-property EXTRA: a mismatch is reported as a NOTE in the evidence of the    *)
(* check that ran it and never changes a verdict (the brief forbids raising an alarm for *)
(* a listed property on code where that property holds).                                 *)
EXTENDS Integers, Sequences, FiniteSets, TLC, TraceBase

VARIABLES l, nchk
tvars == <<l, nchk>>
F == INSTANCE FmtOps

Accepts(ev) ==
  CASE ev.e = "Extra" ->
         /\ G("EXTRA", "EscapeFmtTable", ev.escaped = F!Escape(ev["in"]))
         /\ G("EXTRA", "ToAllocatedStringDigitsAndPadding", ev.tostr = F!ToAllocatedString(ev.v, ev.radix, ev.prec))
    [] ev.e \in {"panic", "crash", "hang"} -> G("EXTRA", "HelperCompletesWithoutAssertionOrSanitizerReport", FALSE)
    [] OTHER -> G("EXTRA", "UnmatchableEvent", FALSE)

TraceInit == l = 1 /\ nchk = 0 /\ InitDiag
TraceNext ==
  \/ /\ l <= NLines
     /\ LET ev == TraceLog[l] IN
        IF ev.e = "Reset" THEN l' = l + 1 /\ nchk' = nchk
        ELSE IF Accepts(ev) THEN l' = l + 1 /\ nchk' = nchk + 1
        ELSE ReportReject(l) /\ l' = NextResetFrom(l + 1) /\ UNCHANGED nchk
  \/ /\ l = NLines + 1 /\ ReportDone(nchk) /\ l' = l + 1 /\ UNCHANGED nchk
Sane == l >= 1
=============================================================================

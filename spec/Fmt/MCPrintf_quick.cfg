CONSTANTS
  FlagSets <- QuickFlags
  Widths = {"", "1", "7", "*", "*-"}
  Precs = {"", ".0", ".3", ".*"}
  Lens = {"", "hh", "l", "ll"}
  Convs = {"d", "u", "o", "x", "X", "s", "c", "p"}
  Vals = {0, 1, 2, 3}
INIT Init
NEXT Next
CONSTRAINT EmitDir
CHECK_DEADLOCK FALSE

------------------------------ MODULE PrintfOps ------------------------------
(* ISO C 7.21.6.1 layout of one printf directive for d i u o x X c s p, as a pure     *)
(* function from a directive record to the bytes it produces (property C19).           *)
(* Number-to-digit conversion is numeric and happens outside (the record carries the   *)
(* digit string of the converted argument and its sign); the flag / width / precision  *)
(* case analysis is what this module specifies.                                         *)
(*                                                                                     *)
(* d = [conv, minus, plus, space, hash, zero, width (>= 0), precGiven, prec,           *)
(*      neg, digs (character codes of the magnitude in the conversion's base), str,    *)
(*      minus0 ('-' as written), starneg (the width came from a negative '*' argument)]  *)
(*                                                                                     *)
(* FriggKnown(d) is the transcription of what formatting.hpp's print_digits /           *)
(* do_printf_ints produce today where that differs from ISO C (recorded as known        *)
(* findings); an output equal to neither is an unlisted violation.                      *)
EXTENDS Integers, Sequences, FiniteSets

Pad(n, c) == [i \in 1..(IF n > 0 THEN n ELSE 0) |-> c]
Max2(a, b) == IF a < b THEN b ELSE a
Take(q, n) == SubSeq(q, 1, IF n < Len(q) THEN n ELSE Len(q))
IsZero(d) == d.digs = <<48>>
Signed(d) == d.conv \in {"d", "i"}

\* minimum-digits rule: precision pads with zeros; precision 0 with value 0 gives no digits
Digits(d) == LET p == IF d.precGiven THEN d.prec ELSE 1 IN
             IF d.precGiven /\ d.prec = 0 /\ IsZero(d) THEN <<>>
             ELSE Pad(p - Len(d.digs), 48) \o d.digs

SignOf(d) == IF ~Signed(d) THEN <<>>
             ELSE IF d.neg THEN <<45>> ELSE IF d.plus THEN <<43>> ELSE IF d.space THEN <<32>> ELSE <<>>

IsoInt(d) ==
  LET body0 == Digits(d)
      body == IF d.hash /\ d.conv = "o" /\ (body0 = <<>> \/ body0[1] # 48) THEN <<48>> \o body0 ELSE body0
      prefix == IF d.hash /\ d.conv \in {"x", "X"} /\ ~IsZero(d) THEN (IF d.conv = "x" THEN <<48, 120>> ELSE <<48, 88>>) ELSE <<>>
      head == SignOf(d) \o prefix
      core == head \o body IN
  IF Len(core) >= d.width THEN core
  ELSE IF d.minus THEN core \o Pad(d.width - Len(core), 32)
  ELSE IF d.zero /\ ~d.precGiven THEN head \o Pad(d.width - Len(core), 48) \o body
  ELSE Pad(d.width - Len(core), 32) \o core

IsoStr(d) == LET t == IF d.precGiven THEN Take(d.str, d.prec) ELSE d.str IN
             IF d.minus THEN t \o Pad(d.width - Len(t), 32) ELSE Pad(d.width - Len(t), 32) \o t
IsoChar(d) == IF d.minus THEN d.str \o Pad(d.width - 1, 32) ELSE Pad(d.width - 1, 32) \o d.str
\* %p in frigg's documented form: 0x followed by the lowercase hexadecimal address
IsoPtr(d) == <<48, 120>> \o d.digs

Iso(d) == CASE d.conv \in {"d", "i", "u", "o", "x", "X"} -> IsoInt(d)
            [] d.conv = "s" -> IsoStr(d)
            [] d.conv = "c" -> IsoChar(d)
            [] d.conv = "p" -> IsoPtr(d)
            [] d.conv = "%" -> <<37>>

\* ---- what frigg does today (formatting.hpp print_digits as called by do_printf_ints) ----
FriggInt(d) ==
  IF d.precGiven /\ d.prec = 0 /\ IsZero(d) THEN <<>>                  \* prints nothing at all: no width, no sign, no "%#.0o" zero
  ELSE
    LET pre == IF d.hash /\ ~IsZero(d)
               THEN (CASE d.conv = "o" -> <<48>> [] d.conv = "x" -> <<48, 120>> [] d.conv = "X" -> <<48, 88>> [] OTHER -> <<>>)
               ELSE <<>>                                                \* emitted first, before any padding, not counted
        k == Len(d.digs)
        p == IF d.precGiven THEN d.prec ELSE 1
        final == Max2(k, p)                                            \* the sign is not counted in the width
        padc == IF d.zero THEN 48 ELSE 32                              \* '0' also with '-' and with a precision
        sgn == IF d.neg THEN <<45>> ELSE IF d.plus THEN <<43>> ELSE IF d.space THEN <<32>> ELSE <<>>   \* also for u o x X
        left == IF ~d.minus /\ final < d.width THEN Pad(d.width - final, padc) ELSE <<>>               \* padding before the sign
        right == IF d.minus /\ final < d.width THEN Pad(d.width - final, padc) ELSE <<>> IN
    pre \o left \o sgn \o Pad(p - k, 48) \o d.digs \o right
\* a negative '*' width is taken as is (no padding at all) instead of as a '-' flag plus a positive width
AsFriggSeesIt(d) == IF d.starneg THEN [d EXCEPT !.width = 0, !.minus = d.minus0] ELSE d
FriggKnown(d0) == LET d == AsFriggSeesIt(d0) IN
                  IF d.conv \in {"d", "i", "u", "o", "x", "X"} THEN FriggInt(d) ELSE Iso(d)

\* which of the listed deviations applies (for the name of the finding)
DeviationClass(d) ==
  IF d.starneg THEN "NegativeStarWidthNotTreatedAsLeftJustify"
  ELSE IF d.precGiven /\ d.prec = 0 /\ IsZero(d) THEN "Precision0Value0DropsWidthSignAndAltZero"
  ELSE IF d.hash /\ d.conv = "o" /\ d.precGiven /\ d.prec > Len(d.digs) THEN "AltOctalZeroAddedAlthoughPrecisionAlreadyGivesALeadingZero"
  ELSE IF d.hash /\ ~IsZero(d) /\ d.width > 0 THEN "AltPrefixBeforePaddingNotCountedInWidth"
  ELSE IF ~Signed(d) /\ (d.plus \/ d.space) THEN "SignFlagsAppliedToUnsignedConversion"
  ELSE IF d.zero /\ (d.minus \/ d.precGiven) THEN "ZeroFlagNotIgnoredWithMinusOrPrecision"
  ELSE IF d.zero /\ SignOf(d) # <<>> THEN "ZeroPaddingBeforeSign"
  ELSE IF SignOf(d) # <<>> /\ d.width > 0 THEN "SignNotCountedInWidth"
  ELSE "Other"
=============================================================================

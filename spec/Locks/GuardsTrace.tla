---------------------------- MODULE GuardsTrace ----------------------------
(* Trace specification for the lock guards: every recorded guard operation must    *)
(* be a legal Guards action whose mutex-call sequence and observable answers are   *)
(* exactly the ones the specification predicts.                                    *)
EXTENDS Guards, TraceBase

VARIABLES l, nchk
tvars == <<vars, l, nchk>>

OpOf(ev) == [op |-> ev.op, g |-> ev.g, x |-> ev.x]

ExpectedObs(sl) ==
  IF Kind = "qs" THEN [g \in Slots |-> <<IF sl[g].alive THEN 1 ELSE 0>>]
  ELSE ObsOf(sl)

Accepts(ev) ==
  /\ G("C12", "KnownEvent", ev.e = "Op")
  /\ LET o == OpOf(ev) IN
     /\ G("C12", "OpInVocabulary", o \in Ops)
     /\ G("C12", "LegalOperation", Legal(o))
     /\ G("C12", "MutexCallsExactlyAsPredicted", ev.calls = Calls(o))
     /\ G("C12", "ObserversAgree", ev.obs = ExpectedObs(NewSlot(o)))
     /\ G("C12", "Balanced",
          LET a == NewAcq(o) e == NewExt(o) sl == NewSlot(o) IN
          \A m \in Mutexes : a[m] = e[m] + Cardinality({g \in Slots : sl[g].alive /\ sl[g].owns /\ sl[g].mutex = m}))

Apply(ev) == LET o == OpOf(ev) IN
  /\ slot' = NewSlot(o)
  /\ acq'  = NewAcq(o)
  /\ ext'  = NewExt(o)

TraceInit == Init /\ l = 1 /\ nchk = 0 /\ InitDiag

TraceNext ==
  \/ /\ l <= NLines
     /\ LET ev == TraceLog[l] IN
        IF ev.e = "Reset"
        THEN /\ slot' = [g \in Slots |-> Dead]
             /\ acq' = [m \in Mutexes |-> 0]
             /\ ext' = [m \in Mutexes |-> 0]
             /\ l' = l + 1 /\ nchk' = nchk
        ELSE IF Accepts(ev)
        THEN Apply(ev) /\ l' = l + 1 /\ nchk' = nchk + 1
        ELSE /\ ReportReject(l)
             /\ l' = NextResetFrom(l + 1)
             /\ UNCHANGED <<vars, nchk>>
  \/ /\ l = NLines + 1
     /\ ReportDone(nchk)
     /\ l' = l + 1
     /\ UNCHANGED <<vars, nchk>>

TraceSpec == TraceInit /\ [][TraceNext]_tvars
=============================================================================

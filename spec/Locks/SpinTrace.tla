------------------------------ MODULE SpinTrace ------------------------------
(* Property-layer trace specification for the spinlocks.  It does not know the    *)
(* lock algorithm: it sees lock()/unlock() calls and returns, the critical-section *)
(* access, and every atomic access WITH THE MEMORY ORDER THE CODE PASSED, from    *)
(* which it maintains the happens-before ghost of HB.tla.  Rejections:             *)
(*   MutualExclusion, TicketOrder, CellRaceFree, NoLostUpdate, NoStall.            *)
EXTENDS Integers, Sequences, FiniteSets, TLC, HB, TraceBase

VARIABLES kind, nthreads,
          holder,          \* thread inside its critical section, or -1
          locking,         \* locking[t]: "no" | "called" | "ticketed"
          tq,              \* threads in the order they took a ticket (first RMW of a lock() call)
          hb, rel, lastw,  \* happens-before ghost
          cnt,             \* number of critical sections executed so far
          l, nchk

svars == <<kind, nthreads, holder, locking, tq, hb, rel, lastw, cnt>>
tvars == <<svars, l, nchk>>

RelOf(v) == IF v \in DOMAIN rel THEN rel[v] ELSE {}
T(ev) == ev.t

Accepts(ev) ==
  CASE ev.e = "LockCall" ->
         /\ G("C12", "ThreadKnown", ev.t \in 0..(nthreads - 1))
         /\ G("C12", "NotReentrant", holder # ev.t /\ locking[ev.t] = "no")
    [] ev.e = "A" ->
         /\ G("C12", "KnownOrder", ev.mo \in Orders)
         /\ G("C12", "KnownAccessKind", ev.k \in {"load", "store", "rmw"})
    [] ev.e = "LockRet" ->
         /\ G("C12", "MutualExclusion", holder = -1)
         /\ G("C12", "LockWasCalled", locking[ev.t] # "no")
         /\ G("C12", "TicketOrder", kind = "ticket" => (tq # <<>> /\ Head(tq) = ev.t))
    [] ev.e = "Cell" ->
         /\ G("C12", "CellInsideCriticalSection", holder = ev.t)
         /\ G("C12", "MutualExclusionObserved", ev.inside = 1)
         /\ G("C12", "CellRaceFree", lastw = <<>> \/ lastw \in hb[ev.t])
         /\ G("C12", "NoLostUpdate", ev.val = cnt + 1)
    [] ev.e = "IsLocked" ->
         G("C12", "IsLockedWhileHeld", holder = ev.t => ev.r = 1)
    [] ev.e = "UnlockCall" -> G("C12", "UnlockByHolder", holder = ev.t)
    [] ev.e = "UnlockRet" -> TRUE
    [] ev.e = "ThreadDone" -> TRUE
    [] ev.e = "End" ->
         /\ G("C12", "FinalCount", ev.cell = cnt)
         /\ G("C12", "AllReleasedAtEnd", ev.complete = 1 => holder = -1)
    [] ev.e = "stall" -> G("C12", "NoStall_LockAcquiredWheneverFree", FALSE)
    [] ev.e = "hang" -> G("C12", "EveryCallReturns", FALSE)
    [] OTHER -> G("C12", "UnmatchableEvent", FALSE)

Apply(ev) ==
  CASE ev.e = "LockCall" ->
         /\ locking' = [locking EXCEPT ![ev.t] = "called"]
         /\ UNCHANGED <<kind, nthreads, holder, tq, hb, rel, lastw, cnt>>
    [] ev.e = "A" ->
         /\ hb' = IF ev.k \in {"load", "rmw"}
                  THEN [hb EXCEPT ![ev.t] = AfterAcquire(@, RelOf(ev.var), ev.mo)] ELSE hb
         /\ rel' = IF ev.k = "store" THEN (ev.var :> AfterStore(hb[ev.t], ev.mo)) @@ rel
                   ELSE IF ev.k = "rmw" THEN (ev.var :> AfterRmw(hb[ev.t], RelOf(ev.var), ev.mo)) @@ rel
                   ELSE rel
         /\ IF ev.k = "rmw" /\ locking[ev.t] = "called" /\ kind = "ticket"
            THEN locking' = [locking EXCEPT ![ev.t] = "ticketed"] /\ tq' = Append(tq, ev.t)
            ELSE UNCHANGED <<locking, tq>>
         /\ UNCHANGED <<kind, nthreads, holder, lastw, cnt>>
    [] ev.e = "LockRet" ->
         /\ holder' = ev.t
         /\ locking' = [locking EXCEPT ![ev.t] = "no"]
         /\ tq' = IF kind = "ticket" THEN Tail(tq) ELSE tq
         /\ UNCHANGED <<kind, nthreads, hb, rel, lastw, cnt>>
    [] ev.e = "Cell" ->
         /\ hb' = [hb EXCEPT ![ev.t] = @ \cup {<<ev.t, cnt + 1>>}]
         /\ lastw' = <<ev.t, cnt + 1>>
         /\ cnt' = cnt + 1
         /\ UNCHANGED <<kind, nthreads, holder, locking, tq, rel>>
    [] ev.e = "UnlockCall" ->
         /\ holder' = -1
         /\ UNCHANGED <<kind, nthreads, locking, tq, hb, rel, lastw, cnt>>
    [] OTHER -> UNCHANGED svars

ResetTo(ev) ==
  /\ kind' = ev.kind /\ nthreads' = ev.threads
  /\ holder' = -1
  /\ locking' = [t \in 0..(ev.threads - 1) |-> "no"]
  /\ tq' = <<>>
  /\ hb' = [t \in 0..(ev.threads - 1) |-> {}]
  /\ rel' = <<>>
  /\ lastw' = <<>>
  /\ cnt' = 0

TraceInit ==
  /\ kind = "" /\ nthreads = 0 /\ holder = -1 /\ locking = <<>> /\ tq = <<>>
  /\ hb = <<>> /\ rel = <<>> /\ lastw = <<>> /\ cnt = 0
  /\ l = 1 /\ nchk = 0 /\ InitDiag

TraceNext ==
  \/ /\ l <= NLines
     /\ LET ev == TraceLog[l] IN
        IF ev.e = "Reset" THEN ResetTo(ev) /\ l' = l + 1 /\ nchk' = nchk
        ELSE IF Accepts(ev) THEN Apply(ev) /\ l' = l + 1 /\ nchk' = nchk + 1
        ELSE ReportReject(l) /\ l' = NextResetFrom(l + 1) /\ UNCHANGED <<svars, nchk>>
  \/ /\ l = NLines + 1 /\ ReportDone(nchk) /\ l' = l + 1 /\ UNCHANGED <<svars, nchk>>

\* the ghost itself must stay sane on every trace
HolderSane == holder = -1 \/ holder \in 0..(nthreads - 1)
=============================================================================

------------------------------- MODULE MCSpin -------------------------------
EXTENDS Spinlocks, Json
VARIABLE hist
MCInit == Init /\ hist = <<>>
MCNext == \E t \in Threads : Step(t) /\ hist' = Append(hist, t)
MCView == vars
Emit == PrintT(<<"H", ToJson(hist')>>)
\* only emit behaviours that add something: stuttering spin loads at the end are replayed too
=============================================================================

------------------------------ MODULE MCGuards ------------------------------
(* Model-checking wrapper: history variable for behaviour emission, hidden by VIEW *)
EXTENDS Guards, Json

VARIABLE hist
MCInit == Init /\ hist = <<>>
MCNext == \E o \in Ops : Do(o) /\ hist' = Append(hist, o)
MCView == vars
Emit == PrintT(<<"H", ToJson(hist')>>)
=============================================================================

------------------------------ MODULE Spinlocks ------------------------------
(* frigg's ticket_spinlock and simple_spinlock at the granularity of individual   *)
(* atomic operations, with the happens-before relation induced by the memory      *)
(* orders the code actually uses (constants MO_*; extracted from recorded traces). *)
(*                                                                                 *)
(* Each thread runs Rounds x { lock(); access cell; unlock(); }.                    *)
EXTENDS Naturals, Sequences, FiniteSets, TLC, HB

CONSTANTS LockKind,     \* "ticket" | "simple"
          Threads, Rounds,
          MO_take,      \* ticket lock():   fetch_add on next_ticket
          MO_spin,      \* ticket lock():   spin load of serving_ticket
          MO_uload,     \* ticket unlock(): load of serving_ticket
          MO_ustore,    \* ticket unlock(): store to serving_ticket
          MO_xchg,      \* simple lock():   exchange on the flag
          MO_sspin,     \* simple lock():   spin load of the flag
          MO_sstore     \* simple unlock(): store to the flag

VARIABLES next, serving, flag,     \* the lock words
          pc, my, cur, left,       \* per thread: control state, ticket, value read in unlock, rounds left
          hb, rel, lastw,          \* happens-before ghost
          took, entered            \* ghost: order of ticket taking / of lock acquisition

vars == <<next, serving, flag, pc, my, cur, left, hb, rel, lastw, took, entered>>

Marker(t) == <<t, left[t]>>

Init ==
  /\ next = 0 /\ serving = 0 /\ flag = FALSE
  /\ pc = [t \in Threads |-> "idle"]
  /\ my = [t \in Threads |-> 0] /\ cur = [t \in Threads |-> 0]
  /\ left = [t \in Threads |-> Rounds]
  /\ hb = [t \in Threads |-> {}]
  /\ rel = [x \in {"next", "serving", "flag"} |-> {}]
  /\ lastw = <<>>
  /\ took = <<>> /\ entered = <<>>

------------------------------------------------------------------------------
\* ticket_spinlock::lock()
TakeTicket(t) ==
  /\ LockKind = "ticket" /\ pc[t] = "idle" /\ left[t] > 0
  /\ my' = [my EXCEPT ![t] = next]
  /\ next' = next + 1
  /\ hb' = [hb EXCEPT ![t] = AfterAcquire(@, rel["next"], MO_take)]
  /\ rel' = [rel EXCEPT !["next"] = AfterRmw(hb[t], @, MO_take)]
  /\ took' = Append(took, t)
  /\ pc' = [pc EXCEPT ![t] = "spin"]
  /\ UNCHANGED <<serving, flag, cur, left, lastw, entered>>

SpinLoad(t) ==
  /\ LockKind = "ticket" /\ pc[t] = "spin"
  /\ hb' = [hb EXCEPT ![t] = AfterAcquire(@, rel["serving"], MO_spin)]
  /\ IF serving = my[t]
     THEN pc' = [pc EXCEPT ![t] = "cs"] /\ entered' = Append(entered, t)
     ELSE pc' = pc /\ entered' = entered
  /\ UNCHANGED <<next, serving, flag, my, cur, left, rel, lastw, took>>

\* ticket_spinlock::unlock()
UnlockLoad(t) ==
  /\ LockKind = "ticket" /\ pc[t] = "unlock"
  /\ cur' = [cur EXCEPT ![t] = serving]
  /\ hb' = [hb EXCEPT ![t] = AfterAcquire(@, rel["serving"], MO_uload)]
  /\ pc' = [pc EXCEPT ![t] = "unlock2"]
  /\ UNCHANGED <<next, serving, flag, my, left, rel, lastw, took, entered>>

UnlockStore(t) ==
  /\ LockKind = "ticket" /\ pc[t] = "unlock2"
  /\ serving' = cur[t] + 1
  /\ rel' = [rel EXCEPT !["serving"] = AfterStore(hb[t], MO_ustore)]
  /\ left' = [left EXCEPT ![t] = @ - 1]
  /\ pc' = [pc EXCEPT ![t] = "idle"]
  /\ UNCHANGED <<next, flag, my, cur, hb, lastw, took, entered>>

------------------------------------------------------------------------------
\* simple_spinlock::lock()
Exchange(t) ==
  /\ LockKind = "simple" /\ pc[t] = "idle" /\ left[t] > 0
  /\ flag' = TRUE
  /\ hb' = [hb EXCEPT ![t] = AfterAcquire(@, rel["flag"], MO_xchg)]
  /\ rel' = [rel EXCEPT !["flag"] = AfterRmw(hb[t], @, MO_xchg)]
  /\ IF flag
     THEN pc' = [pc EXCEPT ![t] = "sspin"] /\ entered' = entered
     ELSE pc' = [pc EXCEPT ![t] = "cs"] /\ entered' = Append(entered, t)
  /\ UNCHANGED <<next, serving, my, cur, left, lastw, took>>

SimpleSpinLoad(t) ==
  /\ LockKind = "simple" /\ pc[t] = "sspin"
  /\ hb' = [hb EXCEPT ![t] = AfterAcquire(@, rel["flag"], MO_sspin)]
  /\ pc' = IF flag THEN pc ELSE [pc EXCEPT ![t] = "idle"]
  /\ UNCHANGED <<next, serving, flag, my, cur, left, rel, lastw, took, entered>>

\* simple_spinlock::unlock()
StoreFalse(t) ==
  /\ LockKind = "simple" /\ pc[t] = "unlock"
  /\ flag' = FALSE
  /\ rel' = [rel EXCEPT !["flag"] = AfterStore(hb[t], MO_sstore)]
  /\ left' = [left EXCEPT ![t] = @ - 1]
  /\ pc' = [pc EXCEPT ![t] = "idle"]
  /\ UNCHANGED <<next, serving, my, cur, hb, lastw, took, entered>>

------------------------------------------------------------------------------
\* the critical section: one plain (non-atomic) read-modify-write of a shared cell
Cell(t) ==
  /\ pc[t] = "cs"
  /\ hb' = [hb EXCEPT ![t] = @ \cup {Marker(t)}]
  /\ lastw' = Marker(t)
  /\ pc' = [pc EXCEPT ![t] = "unlock"]
  /\ UNCHANGED <<next, serving, flag, my, cur, left, rel, took, entered>>

Step(t) == \/ TakeTicket(t) \/ SpinLoad(t) \/ UnlockLoad(t) \/ UnlockStore(t)
           \/ Exchange(t) \/ SimpleSpinLoad(t) \/ StoreFalse(t) \/ Cell(t)

Next == \E t \in Threads : Step(t)

Spec == Init /\ [][Next]_vars
FairSpec == Spec /\ \A t \in Threads : WF_vars(Step(t))

------------------------------------------------------------------------------
InCS(t) == pc[t] \in {"cs", "unlock"}

\* C12: mutual exclusion
MutualExclusion == \A s, t \in Threads : InCS(s) /\ InCS(t) => s = t

\* C12: acquire/release ordering - the previous critical section happens-before this one
CellRaceFree == \A t \in Threads : pc[t] = "cs" => (lastw = <<>> \/ lastw \in hb[t])

\* C12: the ticket lock grants the lock in ticket order
RECURSIVE IsPrefixOf(_, _)
IsPrefixOf(a, b) == Len(a) <= Len(b) /\ \A i \in 1..Len(a) : a[i] = b[i]
GrantOrder == LockKind = "ticket" => IsPrefixOf(entered, took)

TypeOK == /\ next \in Nat /\ serving \in Nat /\ flag \in BOOLEAN
          /\ \A t \in Threads : left[t] \in 0..Rounds

AllDone == \A t \in Threads : left[t] = 0 /\ pc[t] = "idle"

\* progress: every lock() call returns, i.e. with weakly fair threads everybody finishes
Termination == <>AllDone

\* the lock is acquired by some waiter whenever it is free
Waiting(t) == pc[t] \in {"spin", "sspin"} \/ (pc[t] = "idle" /\ left[t] > 0)
Free == \A t \in Threads : ~InCS(t) /\ pc[t] # "unlock2"
SomeoneAcquires == ((\E t \in Threads : Waiting(t)) /\ Free) ~> (\E t \in Threads : InCS(t))
=============================================================================

CONSTANTS
  Kind = "qs"
  Slots = {1,2,3}
  Mutexes = {1,2}
  MaxExt = 2
INIT TraceInit
NEXT TraceNext
INVARIANTS TypeOK Balanced ExclusiveOnce AllReleased OwnsImpliesMutex
CHECK_DEADLOCK FALSE

CONSTANTS
  Kind = "unique"
  Slots = {1,2,3}
  Mutexes = {1,2}
  MaxExt = 1
INIT MCInit
NEXT MCNext
VIEW MCView
INVARIANTS TypeOK Balanced ExclusiveOnce AllReleased OwnsImpliesMutex
ACTION_CONSTRAINT Emit
CHECK_DEADLOCK FALSE

------------------------------- MODULE Guards -------------------------------
(* Lock guards of frigg: unique_lock<M>, shared_lock<M> (mutex.hpp) and the        *)
(* lock_guard<M> of qs.hpp, over one or two mutexes.                                *)
(*                                                                                 *)
(* The specification predicts, for every guard operation, the exact sequence of    *)
(* calls made on the mutex and the answers of is_locked()/protects().  Property    *)
(* C12 (guards part): acquire and release calls stay balanced on every path.       *)
EXTENDS Naturals, Sequences, FiniteSets, TLC

CONSTANTS Kind,        \* "unique" | "shared" | "qs"
          Slots,       \* guard variables of the program, e.g. 1..3
          Mutexes,     \* e.g. 1..2
          MaxExt       \* bound on external (to-be-adopted) acquisitions per mutex

VARIABLES slot,        \* slot[g] = [alive, mutex (0 = none), owns]
          acq,         \* acq[m]  = outstanding acquisitions of mutex m (calls made minus releases)
          ext          \* ext[m]  = acquisitions made by the program itself, not yet adopted by a guard

vars == <<slot, acq, ext>>

Dead == [alive |-> FALSE, mutex |-> 0, owns |-> FALSE]

\* call codes on the instrumented mutex: <<code, m>>
LockCall(m)   == IF Kind = "shared" THEN <<3, m>> ELSE <<1, m>>
UnlockCall(m) == IF Kind = "shared" THEN <<4, m>> ELSE <<2, m>>

Exclusive == Kind # "shared"

Ops ==
  [op : {"Default"}, g : Slots, x : {0}] \cup
  [op : {"ConstructLocked", "ConstructDeferred", "ConstructAdopted"}, g : Slots, x : Mutexes] \cup
  [op : {"ExternalLock"}, g : {0}, x : Mutexes] \cup
  [op : {"Lock", "Unlock", "Destroy"}, g : Slots, x : {0}] \cup
  [op : {"MoveConstruct", "MoveAssign", "Swap"}, g : Slots, x : Slots]

Offered(o) ==
  IF Kind = "qs" THEN o.op \in {"ConstructLocked", "Lock", "Unlock", "Destroy"} ELSE TRUE

\* Is operation o legal in the current state (a program obeying the documented preconditions)?
Legal(o) ==
  /\ Offered(o)
  /\ CASE o.op = "Default"           -> ~slot[o.g].alive
       [] o.op = "ConstructLocked"   -> ~slot[o.g].alive /\ (Exclusive => acq[o.x] = 0)
       [] o.op = "ConstructDeferred" -> ~slot[o.g].alive
       [] o.op = "ConstructAdopted"  -> ~slot[o.g].alive /\ ext[o.x] > 0
       [] o.op = "ExternalLock"      -> ext[o.x] < MaxExt /\ (Exclusive => acq[o.x] = 0)
       [] o.op = "Lock"              -> /\ slot[o.g].alive /\ ~slot[o.g].owns /\ slot[o.g].mutex # 0
                                        /\ (Exclusive => acq[slot[o.g].mutex] = 0)
       [] o.op = "Unlock"            -> slot[o.g].alive /\ slot[o.g].owns
       [] o.op = "Destroy"           -> slot[o.g].alive
       [] o.op = "MoveConstruct"     -> ~slot[o.g].alive /\ slot[o.x].alive /\ o.g # o.x
       [] o.op = "MoveAssign"        -> slot[o.g].alive /\ slot[o.x].alive
       [] o.op = "Swap"              -> slot[o.g].alive /\ slot[o.x].alive

\* The calls the guard must make on the mutex, in order.
Calls(o) ==
  CASE o.op = "ConstructLocked" -> <<LockCall(o.x)>>
    [] o.op = "Lock"            -> <<LockCall(slot[o.g].mutex)>>
    [] o.op = "Unlock"          -> <<UnlockCall(slot[o.g].mutex)>>
    [] o.op = "Destroy"         -> IF slot[o.g].owns THEN <<UnlockCall(slot[o.g].mutex)>> ELSE <<>>
    [] o.op = "MoveAssign"      -> IF o.g # o.x /\ slot[o.g].owns THEN <<UnlockCall(slot[o.g].mutex)>> ELSE <<>>
    [] OTHER                    -> <<>>

NewSlot(o) ==
  CASE o.op = "Default"           -> [slot EXCEPT ![o.g] = [alive |-> TRUE, mutex |-> 0, owns |-> FALSE]]
    [] o.op = "ConstructLocked"   -> [slot EXCEPT ![o.g] = [alive |-> TRUE, mutex |-> o.x, owns |-> TRUE]]
    [] o.op = "ConstructDeferred" -> [slot EXCEPT ![o.g] = [alive |-> TRUE, mutex |-> o.x, owns |-> FALSE]]
    [] o.op = "ConstructAdopted"  -> [slot EXCEPT ![o.g] = [alive |-> TRUE, mutex |-> o.x, owns |-> TRUE]]
    [] o.op = "ExternalLock"      -> slot
    [] o.op = "Lock"              -> [slot EXCEPT ![o.g].owns = TRUE]
    [] o.op = "Unlock"            -> [slot EXCEPT ![o.g].owns = FALSE]
    [] o.op = "Destroy"           -> [slot EXCEPT ![o.g] = Dead]
    [] o.op = "MoveConstruct"     -> [slot EXCEPT ![o.g] = slot[o.x],
                                                  ![o.x] = [alive |-> TRUE, mutex |-> 0, owns |-> FALSE]]
    [] o.op = "MoveAssign"        -> IF o.g = o.x THEN slot
                                     ELSE [slot EXCEPT ![o.g] = slot[o.x],
                                                       ![o.x] = [alive |-> TRUE, mutex |-> 0, owns |-> FALSE]]
    [] o.op = "Swap"              -> [slot EXCEPT ![o.g] = slot[o.x], ![o.x] = slot[o.g]]

RECURSIVE ApplyCalls(_, _)
ApplyCalls(a, cs) ==
  IF cs = <<>> THEN a
  ELSE LET c == Head(cs) IN
       ApplyCalls([a EXCEPT ![c[2]] = IF c[1] \in {1, 3} THEN @ + 1 ELSE @ - 1], Tail(cs))

NewAcq(o) == IF o.op = "ExternalLock" THEN [acq EXCEPT ![o.x] = @ + 1] ELSE ApplyCalls(acq, Calls(o))
NewExt(o) == CASE o.op = "ExternalLock"     -> [ext EXCEPT ![o.x] = @ + 1]
               [] o.op = "ConstructAdopted" -> [ext EXCEPT ![o.x] = @ - 1]
               [] OTHER -> ext

\* What the program can observe of every guard: <<alive, is_locked, protects(m) for each m>>
ObsOf(sl) == [g \in Slots |->
                IF sl[g].alive
                THEN <<1, IF sl[g].owns THEN 1 ELSE 0>> \o
                     [m \in Mutexes |-> IF sl[g].owns /\ sl[g].mutex = m THEN 1 ELSE 0]
                ELSE <<0, 0>> \o [m \in Mutexes |-> 0]]

Do(o) == /\ Legal(o)
         /\ slot' = NewSlot(o)
         /\ acq'  = NewAcq(o)
         /\ ext'  = NewExt(o)

Init == /\ slot = [g \in Slots |-> Dead]
        /\ acq = [m \in Mutexes |-> 0]
        /\ ext = [m \in Mutexes |-> 0]

Next == \E o \in Ops : Do(o)

Spec == Init /\ [][Next]_vars

-----------------------------------------------------------------------------
Owning(m) == Cardinality({g \in Slots : slot[g].alive /\ slot[g].owns /\ slot[g].mutex = m})

TypeOK == /\ \A g \in Slots : slot[g].mutex \in {0} \cup Mutexes
          /\ \A m \in Mutexes : acq[m] \in Nat /\ ext[m] \in 0..MaxExt

\* C12: outstanding acquisitions = guards that say they own the lock (+ not yet adopted external locks)
Balanced == \A m \in Mutexes : acq[m] = ext[m] + Owning(m)

\* an exclusive mutex is never acquired twice
ExclusiveOnce == Exclusive => \A m \in Mutexes : acq[m] <= 1

\* when every guard is gone only the program's own acquisitions remain
AllReleased == (\A g \in Slots : ~slot[g].alive) => \A m \in Mutexes : acq[m] = ext[m]

\* a dead or moved-from guard owns nothing
OwnsImpliesMutex == \A g \in Slots : slot[g].owns => slot[g].alive /\ slot[g].mutex # 0
=============================================================================

------------------------------ MODULE HashTrace ------------------------------
(* Trace specification for C14: after every call the trace carries get() and find() *)
(* of EVERY key of the universe, size(), empty() and the iterated entries; all must   *)
(* equal what the abstract map says, whatever the hash function.                      *)
EXTENDS Integers, Sequences, FiniteSets, TLC, SequencesExt, HashMapOps, TraceBase

VARIABLES nkeys, m, l, nchk
svars == <<nkeys, m>>
tvars == <<svars, l, nchk>>


OpOf(ev) == [name |-> ev.name, k |-> ev.k]
Keyset == 0..(nkeys - 1)
ExpectedIter(mm) == LET P == {k \in Keyset : mm[k] # Absent}
                        sq == SetToSortSeq(P, <) IN
                    [i \in 1..Len(sq) |-> <<sq[i], mm[sq[i]]>>]
AsSeq(mm) == [i \in 1..nkeys |-> mm[i - 1]]

Accepts(ev) ==
  CASE ev.e = "Op" ->
         LET op == OpOf(ev)
             mm == Eff(op, m) IN
         /\ G("C14", "KeyInUniverse", ev.k \in Keyset)
         /\ G("C14", "LegalOperation", Legal(op, m))
         /\ G("C14", "ReturnedValue", ev.name \in {"index", "index_set", "remove", "get"} => ev.res = Result(op, m))
         /\ (ev.chk = 0 \/
             (/\ G("C14", "GetLocatesExactlyThePresentKeys", ev.get = AsSeq(mm))
              /\ G("C14", "FindLocatesExactlyThePresentKeys", ev.find = AsSeq(mm) /\ ev.cfind = AsSeq(mm))
              /\ G("C14", "SizeIsNumberOfEntries", ev.size = Size(mm) /\ ev.empty = (IF Size(mm) = 0 THEN 1 ELSE 0))
              /\ G("C14", "IterationYieldsEveryEntryOnce", ev.iter = ExpectedIter(mm))))
    [] ev.e \in {"Ctor", "Dtor", "Assign", "Alloc", "Dealloc", "Free", "OpBegin", "OwnerGone"} -> TRUE
    [] ev.e = "panic" -> G("C14", "NoPanicInLegalState", FALSE)
    [] ev.e = "crash" -> G("C14", "NoCrash", FALSE)
    [] ev.e = "hang" -> G("C14", "EveryCallReturns", FALSE)
    [] OTHER -> G("C14", "UnmatchableEvent", FALSE)

Apply(ev) == IF ev.e = "Op" THEN m' = Eff(OpOf(ev), m) /\ nkeys' = nkeys ELSE UNCHANGED svars
ResetTo(ev) == nkeys' = ev.nkeys /\ m' = [k \in 0..(ev.nkeys - 1) |-> -1]
TraceInit == nkeys = 0 /\ m = <<>> /\ l = 1 /\ nchk = 0 /\ InitDiag
TraceNext ==
  \/ /\ l <= NLines
     /\ LET ev == TraceLog[l] IN
        IF ev.e = "Reset" THEN ResetTo(ev) /\ l' = l + 1 /\ nchk' = nchk
        ELSE IF Accepts(ev) THEN Apply(ev) /\ l' = l + 1 /\ nchk' = nchk + (IF ev.e = "Op" THEN 1 ELSE 0)
        ELSE ReportReject(l) /\ l' = NextResetFrom(l + 1) /\ UNCHANGED <<svars, nchk>>
  \/ /\ l = NLines + 1 /\ ReportDone(nchk) /\ l' = l + 1 /\ UNCHANGED <<svars, nchk>>
Sane == nkeys >= 0
=============================================================================

------------------------------- MODULE MCHash -------------------------------
EXTENDS HashMap, Json
VARIABLE hist
MCInit == Init /\ hist = <<>>
MCNext == \E op \in Ops : Do(op) /\ hist' = Append(hist, op)
MCView == vars
Emit == PrintT(<<"H", ToJson(hist')>>)
=============================================================================

CONSTANTS
  Keys = {0,1,2,3,4,5,6,7,8,9,10}
  MaxDefault = 1
INIT MCInit
NEXT MCNext
VIEW MCView
INVARIANT TypeOK
ACTION_CONSTRAINT Emit
CHECK_DEADLOCK FALSE

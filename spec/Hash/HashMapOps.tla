------------------------------ MODULE HashMapOps ------------------------------
(* The meaning of hash_map's operations on an abstract map mm: Key -> value or Absent. *)
(* Constant-free so that both the model (HashMap.tla) and the trace specification        *)
(* (HashTrace.tla, where the key universe comes from the trace) use the same text.       *)
EXTENDS Integers, Sequences, FiniteSets

Absent == -1
Default == 0
Val(k) == k + 100                \* the value inserted / assigned for key k

Present(mm) == {k \in DOMAIN mm : mm[k] # Absent}

Legal(op, mm) ==
  /\ op.name = "insert" => mm[op.k] = Absent     \* insert is documented for absent keys only
  \* init_list: the map is constructed anew from an initializer list holding keys 0..k-1 (only modelled for a still empty map)
  /\ op.name = "init_list" => (Present(mm) = {} /\ \A j \in 0..(op.k - 1) : j \in DOMAIN mm)
Eff(op, mm) ==
  CASE op.name = "insert" -> [mm EXCEPT ![op.k] = Val(op.k)]
    [] op.name = "index" -> IF mm[op.k] = Absent THEN [mm EXCEPT ![op.k] = Default] ELSE mm
    [] op.name = "index_set" -> [mm EXCEPT ![op.k] = Val(op.k)]
    [] op.name = "remove" -> [mm EXCEPT ![op.k] = Absent]
    [] op.name = "get" -> mm
    [] op.name = "init_list" -> [j \in DOMAIN mm |-> IF j < op.k THEN Val(j) ELSE Absent]
\* what the call returns: the value (index, get, remove) or Absent
Result(op, mm) ==
  CASE op.name = "index" -> IF mm[op.k] = Absent THEN Default ELSE mm[op.k]
    [] op.name = "index_set" -> Val(op.k)
    [] op.name \in {"remove", "get"} -> mm[op.k]
    [] OTHER -> Absent

Size(mm) == Cardinality(Present(mm))
=============================================================================

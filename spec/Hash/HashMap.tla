------------------------------- MODULE HashMap -------------------------------
(* Abstract key->value association for frigg's hash_map (property C14).            *)
(* m[k] = Absent or the value stored under k.  Operations: insert of an absent key,  *)
(* operator[] (default-inserts exactly once, returns a reference the program may      *)
(* assign through), get, find, remove (returns the stored value), size, iteration.    *)
(* The hash function is irrelevant to the meaning - that is the property.             *)
EXTENDS Integers, Sequences, FiniteSets, TLC, HashMapOps

CONSTANTS Keys,        \* key universe, e.g. 0..10
          MaxDefault   \* bound on simultaneously default-valued entries (keeps the graph small)

VARIABLES m
vars == <<m>>

Ops == [name : {"insert", "index", "index_set", "remove", "get", "init_list"}, k : Keys]

Init == m = [k \in Keys |-> Absent]
Do(op) == /\ Legal(op, m)
          /\ op.name # "get"          \* pure observers do not change the graph; they are logged after every call
          /\ op.name = "init_list" => op.k \in 1..3
          /\ m' = Eff(op, m)
          /\ Cardinality({k \in Keys : m'[k] = Default}) <= MaxDefault
Next == \E op \in Ops : Do(op)
Spec == Init /\ [][Next]_vars

TypeOK == \A k \in Keys : m[k] \in {Absent, Default, Val(k)}
=============================================================================

---------------------------- MODULE MCRadixConc ----------------------------
(* Scenarios and model-checking wrapper for RadixConc.                             *)
EXTENDS RadixConc, Json

\* the orders written in rcu_radixtree.hpp at the pinned commit
MOpinned ==
   ("erase.link.load.0" :> "acq") @@
   ("erase.mask.load.0" :> "acq") @@
   ("erase.mask.store.0" :> "rel") @@
   ("erase.root.load.0" :> "acq") @@
   ("find.link.load.0" :> "acq") @@
   ("find.mask.load.0" :> "acq") @@
   ("find.root.load.0" :> "acq") @@
   ("find_or_insert.link.load.0" :> "acq") @@
   ("find_or_insert.link.store.0" :> "rel") @@
   ("find_or_insert.link.store.1" :> "rlx") @@
   ("find_or_insert.link.store.2" :> "rlx") @@
   ("find_or_insert.link.store.3" :> "rlx") @@
   ("find_or_insert.link.store.4" :> "rel") @@
   ("find_or_insert.mask.load.0" :> "acq") @@
   ("find_or_insert.mask.store.0" :> "rlx") @@
   ("find_or_insert.mask.store.1" :> "rlx") @@
   ("find_or_insert.mask.store.2" :> "rel") @@
   ("find_or_insert.root.load.0" :> "acq") @@
   ("find_or_insert.root.store.0" :> "rel") @@
   ("find_or_insert.root.store.1" :> "rel")

K(a, b, c) == <<a, b, c>>
Ins(k) == [op |-> "ins", k |-> k]
Era(k) == [op |-> "erase", k |-> k]

\* A: case 1 at the root, case 3, split at the root (twice, the second one at depth 0), case 1 below an
\*    inner node, erase, re-insert
ScriptA == <<Ins(K(0,0,0)), Ins(K(0,0,1)), Ins(K(0,1,0)), Ins(K(1,0,0)), Ins(K(2,0,0)), Era(K(0,0,1)), Ins(K(0,0,1))>>
RKeysA == (1 :> <<K(0,0,1), K(0,1,0)>>) @@ (2 :> <<K(0,0,0), K(2,0,0)>>)
\* B: a split BELOW the root while readers look for keys on both sides of it, erase of a key being looked up
ScriptB == <<Ins(K(0,0,0)), Ins(K(1,0,0)), Ins(K(0,1,1)), Ins(K(0,1,2)), Era(K(0,0,0)), Ins(K(0,1,1))>>
RKeysB == (1 :> <<K(0,0,0), K(0,1,1)>>) @@ (2 :> <<K(0,1,2), K(0,0,0)>>)
\* C: three readers, short writer script
ScriptC == <<Ins(K(0,0,0)), Ins(K(0,1,0)), Era(K(0,0,0))>>
RKeysC == (1 :> <<K(0,0,0)>>) @@ (2 :> <<K(0,1,0)>>) @@ (3 :> <<K(0,0,0)>>)

VARIABLE hist
MCInit == Init /\ hist = <<>>
MCNext == \/ WStep /\ hist' = Append(hist, 0)
          \/ \E t \in Readers : RStep(t) /\ hist' = Append(hist, t)
MCView == vars
Emit == PrintT(<<"H", ToJson(hist')>>)
=============================================================================

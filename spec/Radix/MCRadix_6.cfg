CONSTANTS
  K = {1,2,3,4,5,6}
  MaxGen = 2
INIT MCInit
NEXT MCNext
VIEW MCView
INVARIANTS TypeOK PresentImpliesInserted
ACTION_CONSTRAINT Emit
CHECK_DEADLOCK FALSE

----------------------------- MODULE RadixTrace -----------------------------
(* Trace specification for C09: the recorded calls of the real rcu_radixtree must  *)
(* be behaviours of Radix.tla, with the logged addresses resolving the (free)      *)
(* choice of where a value lives.  After every call the trace carries find() of    *)
(* EVERY key of the execution's universe and the full iteration.                   *)
EXTENDS Integers, Sequences, FiniteSets, TLC, SequencesExt, TraceBase

VARIABLES keys,        \* the universe: sequence of 16-nibble arrays (from Reset)
          present, gen,
          addr,        \* addr[k]: address id of the value of a present key
          l, nchk

svars == <<keys, present, gen, addr>>
tvars == <<svars, l, nchk>>

KS == 1..Len(keys)

RECURSIVE LexLess(_, _, _)
LexLess(a, b, i) == IF i > Len(a) THEN FALSE
                    ELSE IF a[i] < b[i] THEN TRUE
                    ELSE IF a[i] > b[i] THEN FALSE
                    ELSE LexLess(a, b, i + 1)
KeyLess(i, j) == LexLess(keys[i], keys[j], 1)

\* state after the operation
NewPresent(ev) == CASE ev.op \in {"foi", "insert"} -> [present EXCEPT ![ev.k] = TRUE]
                    [] ev.op = "erase" -> [present EXCEPT ![ev.k] = FALSE]
                    [] OTHER -> present
Inserted(ev) == ev.op \in {"foi", "insert"} /\ ~present[ev.k]
NewGen(ev) == IF Inserted(ev) THEN [gen EXCEPT ![ev.k] = @ + 1] ELSE gen
NewAddr(ev) == IF Inserted(ev) THEN [addr EXCEPT ![ev.k] = ev.r]
               ELSE IF ev.op = "erase" THEN [addr EXCEPT ![ev.k] = 0] ELSE addr

ExpectedAll(ev) == [j \in KS |-> IF NewPresent(ev)[j] THEN <<NewAddr(ev)[j], j, NewGen(ev)[j], 1>> ELSE <<0, 0, 0, 0>>]
ExpectedIter(ev) == LET P == {j \in KS : NewPresent(ev)[j]}
                        s == SetToSortSeq(P, KeyLess) IN
                    [i \in 1..Len(s) |-> <<s[i], NewAddr(ev)[s[i]]>>]

Accepts(ev) ==
  CASE ev.e = "Op" ->
         /\ G("C09", "KeyInUniverse", ev.k \in KS)
         /\ G("C09", "KnownOperation", ev.op \in {"foi", "insert", "erase", "find"})
         /\ G("C09", "EraseOnlyPresent", ev.op = "erase" => present[ev.k])
         /\ G("C09", "InsertOnlyAbsent", ev.op = "insert" => ~present[ev.k])
         /\ G("C09", "NoSecondValueForPresentKey",
              (ev.op = "foi" /\ present[ev.k]) => (ev.ins = 0 /\ ev.r = addr[ev.k]))
         /\ G("C09", "InsertReportedAndFreshAddress",
              Inserted(ev) => (ev.ins = 1 /\ ev.r # 0 /\ \A j \in KS : (present[j] /\ j # ev.k) => addr[j] # ev.r))
         /\ G("C09", "FindExact", ev.op = "find" => ev.r = (IF present[ev.k] THEN addr[ev.k] ELSE 0))
         /\ G("C09", "EveryLookupExactAndAddressesStable", ev.all = ExpectedAll(ev))
         /\ G("C09", "IterationExactAscendingOnce", ev.iter = ExpectedIter(ev))
    [] ev.e = "Destroyed" -> TRUE
    [] ev.e = "panic" -> G("C09", "NoPanicInLegalState", FALSE)
    [] ev.e = "crash" -> G("C09", "NoCrash", FALSE)
    [] ev.e = "hang" -> G("C09", "EveryCallReturns", FALSE)
    [] OTHER -> G("C09", "UnmatchableEvent", FALSE)

Apply(ev) ==
  IF ev.e = "Op"
  THEN /\ present' = NewPresent(ev) /\ gen' = NewGen(ev) /\ addr' = NewAddr(ev) /\ keys' = keys
  ELSE UNCHANGED svars

ResetTo(ev) ==
  /\ keys' = ev.keys
  /\ present' = [j \in 1..Len(ev.keys) |-> FALSE]
  /\ gen' = [j \in 1..Len(ev.keys) |-> 0]
  /\ addr' = [j \in 1..Len(ev.keys) |-> 0]

TraceInit == keys = <<>> /\ present = <<>> /\ gen = <<>> /\ addr = <<>> /\ l = 1 /\ nchk = 0 /\ InitDiag

TraceNext ==
  \/ /\ l <= NLines
     /\ LET ev == TraceLog[l] IN
        IF ev.e = "Reset" THEN ResetTo(ev) /\ l' = l + 1 /\ nchk' = nchk
        ELSE IF Accepts(ev) THEN Apply(ev) /\ l' = l + 1 /\ nchk' = nchk + 1
        ELSE ReportReject(l) /\ l' = NextResetFrom(l + 1) /\ UNCHANGED <<svars, nchk>>
  \/ /\ l = NLines + 1 /\ ReportDone(nchk) /\ l' = l + 1 /\ UNCHANGED <<svars, nchk>>

\* invariant of the abstract map carried along the trace: addresses of present keys are distinct
AddressesInjective == \A i, j \in KS : (present[i] /\ present[j] /\ i # j) => addr[i] # addr[j]
=============================================================================

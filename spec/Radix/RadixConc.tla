------------------------------ MODULE RadixConc ------------------------------
(* rcu_radixtree with one writer and lock-free readers (property C10), one action  *)
(* per atomic access (plus one per API return).  Plain code between two seam       *)
(* points executes with the following seam event.                                  *)
(*                                                                                 *)
(* Keys are sequences of L digits; the real tree's 16 nibbles are obtained by       *)
(* embedding the digits at increasing nibble positions (last digit = nibble 15),    *)
(* which preserves the structure of the path-compressed trie.  NL = 16 is the       *)
(* number of link slots a new inner node initialises before it is published.        *)
(*                                                                                 *)
(* Values follow the interleaving; happens-before is the one induced by the memory  *)
(* orders actually used (MO, extracted from recorded traces).                       *)
EXTENDS Naturals, Sequences, FiniteSets, TLC, HB

CONSTANTS L,            \* digits per key
          Digits,       \* e.g. {0,1}
          NL,           \* link slots nulled when an inner node is created (16 in the code)
          MaxNodes,
          Script,       \* writer: sequence of [op |-> "ins" | "erase", k |-> key]
          Readers,      \* reader thread ids, e.g. {1,2}
          RKeys,        \* RKeys[t]: sequence of keys reader t looks up
          MO            \* memory order per access site

VARIABLES root, nodes, nextId,
          w,            \* writer record
          rd,           \* reader records
          hb, rel,      \* happens-before ghost
          present, gen, \* abstract map: key present (insert returned, erase not begun); insert count
          bad           \* set of property violations observed (strings), must stay empty

vars == <<root, nodes, nextId, w, rd, hb, rel, present, gen, bad>>

W == 0
Threads == {W} \cup Readers
Keys == {Script[i].k : i \in 1..Len(Script)} \cup UNION {{RKeys[t][i] : i \in 1..Len(RKeys[t])} : t \in Readers}

Pfx(k, d) == SubSeq(k, 1, d)
Idx(k, d) == k[d + 1]
LeafDepth == L - 1

NoNode == [alloc |-> FALSE, leaf |-> FALSE, prefix |-> <<>>, depth |-> 0, parent |-> 0,
           links |-> [x \in Digits |-> 0], mask |-> {}, val |-> [x \in Digits |-> <<>>]]

InitW == [pc |-> "idle", i |-> 1, p |-> 0, s |-> 0, n |-> 0, r |-> 0, d |-> 0, j |-> 0, m |-> {}, res |-> FALSE]
InitR == [pc |-> "idle", i |-> 1, n |-> 0, m |-> {}, must |-> FALSE]

Init ==
  /\ root = 0
  /\ nodes = [id \in 1..MaxNodes |-> NoNode]
  /\ nextId = 1
  /\ w = InitW
  /\ rd = [t \in Readers |-> InitR]
  /\ hb = [t \in Threads |-> {}]
  /\ rel = [x \in {} |-> {}]
  /\ present = [k \in Keys |-> FALSE]
  /\ gen = [k \in Keys |-> 0]
  /\ bad = {}

RelOf(x) == IF x \in DOMAIN rel THEN rel[x] ELSE {}
Loc(kind, id, x) == <<kind, id, x>>       \* <<"L", node, digit>>, <<"M", node, 0>>, <<"R", 0, 0>>
RootLoc == Loc("R", 0, 0)

AcqLoad(t, loc, site) == hb' = [hb EXCEPT ![t] = AfterAcquire(@, RelOf(loc), MO[site])] /\ rel' = rel
\* the writer's hb set is extended with the markers of the plain writes made in this step first
RelStore(add, loc, site) == /\ hb' = [hb EXCEPT ![W] = @ \cup add]
                            /\ rel' = (loc :> AfterStore(hb[W] \cup add, MO[site])) @@ rel

CurOp == Script[w.i]
CurK == CurOp.k

InFind(k) == \E t \in Readers : rd[t].pc # "idle" /\ RKeys[t][rd[t].i] = k

-----------------------------------------------------------------------------
\* writer: find_or_insert(k, v)

\* a slot that held a value before may only be constructed over again once no reader is inside
\* find(k) - the grace period the user of an RCU structure owes before reusing memory
InsStart ==
  /\ w.pc = "idle" /\ w.i <= Len(Script) /\ CurOp.op = "ins"
  /\ (gen[CurK] > 0 => ~InFind(CurK))
  /\ w' = [w EXCEPT !.pc = "w_dec", !.s = root, !.p = 0]
  /\ AcqLoad(W, RootLoc, "find_or_insert.root.load.0")
  /\ UNCHANGED <<root, nodes, nextId, rd, present, gen, bad>>

Case1 == w.pc = "w_dec" /\ w.s = 0
Case2 == w.pc = "w_dec" /\ w.s # 0 /\ Pfx(CurK, nodes[w.s].depth) # nodes[w.s].prefix
Case3 == w.pc = "w_dec" /\ w.s # 0 /\ ~Case2 /\ nodes[w.s].leaf
Descend == w.pc = "w_dec" /\ w.s # 0 /\ ~Case2 /\ ~nodes[w.s].leaf

NewLeaf(parent) == [alloc |-> TRUE, leaf |-> TRUE, prefix |-> Pfx(CurK, LeafDepth), depth |-> LeafDepth,
                    parent |-> parent, links |-> [x \in Digits |-> 0], mask |-> {Idx(CurK, LeafDepth)},
                    val |-> [x \in Digits |-> <<>>]]
ValTag == <<CurK, gen[CurK] + 1>>
ValMarker(id) == <<"val", id, Idx(CurK, LeafDepth), gen[CurK] + 1>>

\* case 1: new last-level node under p (or as root)
C1Mask ==
  /\ Case1 /\ nextId <= MaxNodes
  /\ nodes' = [nodes EXCEPT ![nextId] = NewLeaf(w.p)]
  /\ nextId' = nextId + 1
  /\ w' = [w EXCEPT !.pc = "c1_pub", !.n = nextId]
  /\ RelStore({<<"init", nextId>>}, Loc("M", nextId, 0), "find_or_insert.mask.store.0")
  /\ UNCHANGED <<root, rd, present, gen, bad>>

C1Pub ==
  /\ w.pc = "c1_pub"
  /\ LET n == w.n
         nd1 == [nodes EXCEPT ![n].val[Idx(CurK, LeafDepth)] = ValTag] IN
     IF w.p # 0
     THEN /\ nodes' = [nd1 EXCEPT ![w.p].links[Idx(CurK, nodes[w.p].depth)] = n]
          /\ root' = root
          /\ RelStore({ValMarker(n)}, Loc("L", w.p, Idx(CurK, nodes[w.p].depth)), "find_or_insert.link.store.0")
     ELSE /\ nodes' = nd1
          /\ root' = n
          /\ RelStore({ValMarker(n)}, RootLoc, "find_or_insert.root.store.0")
  /\ w' = [w EXCEPT !.pc = "w_ret", !.res = TRUE]
  /\ UNCHANGED <<nextId, rd, present, gen, bad>>

\* case 2: new inner node r with the new last-level node n and the old subtree s below it
RECURSIVE CommonDepth(_, _, _)
CommonDepth(a, b, d) == IF d < Len(a) /\ d < Len(b) /\ a[d + 1] = b[d + 1] THEN CommonDepth(a, b, d + 1) ELSE d

C2Mask ==
  /\ Case2 /\ nextId + 1 <= MaxNodes
  /\ nodes' = [nodes EXCEPT ![nextId] = NewLeaf(nextId + 1)]
  /\ nextId' = nextId + 2
  /\ w' = [w EXCEPT !.pc = "c2_null", !.n = nextId, !.r = nextId + 1, !.j = 0]
  /\ RelStore({<<"init", nextId>>}, Loc("M", nextId, 0), "find_or_insert.mask.store.1")
  /\ UNCHANGED <<root, rd, present, gen, bad>>

\* r->links[j].store(nullptr, relaxed); before the first one: value constructed, s->parent = r, r's fields
C2Null ==
  /\ w.pc = "c2_null"
  /\ LET first == w.j = 0
         d == CommonDepth(CurK, nodes[w.s].prefix, 0)
         nd1 == IF first
                THEN [nodes EXCEPT ![w.n].val[Idx(CurK, LeafDepth)] = ValTag,
                                   ![w.s].parent = w.r,
                                   ![w.r] = [NoNode EXCEPT !.alloc = TRUE, !.leaf = FALSE, !.prefix = Pfx(CurK, d),
                                                           !.depth = d, !.parent = w.p]]
                ELSE nodes IN
     /\ nodes' = nd1
     /\ w' = [w EXCEPT !.j = @ + 1, !.d = IF first THEN d ELSE @, !.pc = IF w.j + 1 = NL THEN "c2_l1" ELSE "c2_null"]
     /\ RelStore(IF first THEN {ValMarker(w.n), <<"init", w.r>>} ELSE {}, Loc("N", w.r, w.j), "find_or_insert.link.store.1")
  /\ UNCHANGED <<root, nextId, rd, present, gen, bad>>

C2L1 ==
  /\ w.pc = "c2_l1"
  /\ nodes' = [nodes EXCEPT ![w.r].links[Idx(CurK, w.d)] = w.n]
  /\ w' = [w EXCEPT !.pc = "c2_l2"]
  /\ RelStore({}, Loc("L", w.r, Idx(CurK, w.d)), "find_or_insert.link.store.2")
  /\ UNCHANGED <<root, nextId, rd, present, gen, bad>>

C2L2 ==
  /\ w.pc = "c2_l2"
  /\ nodes' = [nodes EXCEPT ![w.r].links[Idx(nodes[w.s].prefix \o <<0>>, w.d)] = w.s]
  /\ w' = [w EXCEPT !.pc = "c2_pub"]
  /\ RelStore({}, Loc("L", w.r, Idx(nodes[w.s].prefix \o <<0>>, w.d)), "find_or_insert.link.store.3")
  /\ UNCHANGED <<root, nextId, rd, present, gen, bad>>

C2Pub ==
  /\ w.pc = "c2_pub"
  /\ IF w.p # 0
     THEN /\ nodes' = [nodes EXCEPT ![w.p].links[Idx(CurK, nodes[w.p].depth)] = w.r]
          /\ root' = root
          /\ RelStore({}, Loc("L", w.p, Idx(CurK, nodes[w.p].depth)), "find_or_insert.link.store.4")
     ELSE /\ nodes' = nodes
          /\ root' = w.r
          /\ RelStore({}, RootLoc, "find_or_insert.root.store.1")
  /\ w' = [w EXCEPT !.pc = "w_ret", !.res = TRUE]
  /\ UNCHANGED <<nextId, rd, present, gen, bad>>

\* case 3: the last-level node exists
C3Load ==
  /\ Case3
  /\ w' = [w EXCEPT !.m = nodes[w.s].mask,
                    !.pc = IF Idx(CurK, LeafDepth) \in nodes[w.s].mask THEN "w_ret" ELSE "c3_store",
                    !.res = FALSE]
  /\ AcqLoad(W, Loc("M", w.s, 0), "find_or_insert.mask.load.0")
  /\ UNCHANGED <<root, nodes, nextId, rd, present, gen, bad>>

C3Store ==
  /\ w.pc = "c3_store"
  /\ nodes' = [nodes EXCEPT ![w.s].val[Idx(CurK, LeafDepth)] = ValTag,
                            ![w.s].mask = w.m \cup {Idx(CurK, LeafDepth)}]
  /\ w' = [w EXCEPT !.pc = "w_ret", !.res = TRUE]
  /\ RelStore({ValMarker(w.s)}, Loc("M", w.s, 0), "find_or_insert.mask.store.2")
  /\ UNCHANGED <<root, nextId, rd, present, gen, bad>>

WLink ==
  /\ Descend
  /\ w' = [w EXCEPT !.p = w.s, !.s = nodes[w.s].links[Idx(CurK, nodes[w.s].depth)]]
  /\ AcqLoad(W, Loc("L", w.s, Idx(CurK, nodes[w.s].depth)), "find_or_insert.link.load.0")
  /\ UNCHANGED <<root, nodes, nextId, rd, present, gen, bad>>

\* API return of the writer (find_or_insert or erase)
WRet ==
  /\ w.pc = "w_ret"
  /\ IF CurOp.op = "ins"
     THEN /\ present' = [present EXCEPT ![CurK] = TRUE]
          /\ gen' = IF w.res THEN [gen EXCEPT ![CurK] = @ + 1] ELSE gen
          \* find_or_insert reports an insertion exactly when the key was absent
          /\ bad' = IF w.res = present[CurK] THEN bad \cup {"InsertedFlagWrong"} ELSE bad
     ELSE UNCHANGED <<present, gen, bad>>
  /\ w' = [InitW EXCEPT !.i = w.i + 1]
  /\ UNCHANGED <<root, nodes, nextId, rd, hb, rel>>

-----------------------------------------------------------------------------
\* writer: erase(k)  (only scripted for present keys)
EraseStart ==
  /\ w.pc = "idle" /\ w.i <= Len(Script) /\ CurOp.op = "erase"
  /\ present' = [present EXCEPT ![CurK] = FALSE]          \* absent from the moment erase begins
  /\ rd' = [t \in Readers |-> IF rd[t].pc # "idle" /\ RKeys[t][rd[t].i] = CurK THEN [rd[t] EXCEPT !.must = FALSE] ELSE rd[t]]
  /\ w' = [w EXCEPT !.pc = "e_dec", !.s = root]
  /\ AcqLoad(W, RootLoc, "erase.root.load.0")
  /\ UNCHANGED <<root, nodes, nextId, gen, bad>>

ELink ==
  /\ w.pc = "e_dec" /\ w.s # 0 /\ ~nodes[w.s].leaf
  /\ w' = [w EXCEPT !.s = nodes[w.s].links[Idx(CurK, nodes[w.s].depth)]]
  /\ AcqLoad(W, Loc("L", w.s, Idx(CurK, nodes[w.s].depth)), "erase.link.load.0")
  /\ UNCHANGED <<root, nodes, nextId, rd, present, gen, bad>>

ELoad ==
  /\ w.pc = "e_dec" /\ w.s # 0 /\ nodes[w.s].leaf
  /\ w' = [w EXCEPT !.m = nodes[w.s].mask, !.pc = "e_store"]
  /\ AcqLoad(W, Loc("M", w.s, 0), "erase.mask.load.0")
  /\ UNCHANGED <<root, nodes, nextId, rd, present, gen, bad>>

EStore ==
  /\ w.pc = "e_store"
  /\ nodes' = [nodes EXCEPT ![w.s].mask = w.m \ {Idx(CurK, LeafDepth)}]
  /\ w' = [w EXCEPT !.pc = "w_ret"]
  /\ RelStore({}, Loc("M", w.s, 0), "erase.mask.store.0")
  /\ UNCHANGED <<root, nextId, rd, present, gen, bad>>

-----------------------------------------------------------------------------
\* readers: find(k)
RK(t) == RKeys[t][rd[t].i]

FRoot(t) ==
  /\ rd[t].pc = "idle" /\ rd[t].i <= Len(RKeys[t])
  /\ rd' = [rd EXCEPT ![t] = [@ EXCEPT !.pc = "f_node", !.n = root, !.must = present[RK(t)]]]
  /\ AcqLoad(t, RootLoc, "find.root.load.0")
  /\ UNCHANGED <<root, nodes, nextId, w, present, gen, bad>>

\* plain read of a node's prefix/depth: the initialisation must happen-before it
FieldRace(t, n) == IF <<"init", n>> \in hb[t] THEN {} ELSE {"NoUninitRead_NodeFields"}
Finish(t, found) == IF rd[t].must /\ ~found THEN {"PresentFound"} ELSE {}

\* next step of a find: either it returns null (nothing there / prefix mismatch) or it performs the next load
FNull(t) ==
  /\ rd[t].pc = "f_node"
  /\ (IF rd[t].n = 0 THEN TRUE ELSE Pfx(RK(t), nodes[rd[t].n].depth) # nodes[rd[t].n].prefix)
  /\ bad' = bad \cup (IF rd[t].n # 0 THEN FieldRace(t, rd[t].n) ELSE {}) \cup Finish(t, FALSE)
  /\ rd' = [rd EXCEPT ![t] = [InitR EXCEPT !.i = rd[t].i + 1]]
  /\ UNCHANGED <<root, nodes, nextId, w, hb, rel, present, gen>>

FLink(t) ==
  /\ rd[t].pc = "f_node" /\ rd[t].n # 0
  /\ Pfx(RK(t), nodes[rd[t].n].depth) = nodes[rd[t].n].prefix /\ ~nodes[rd[t].n].leaf
  /\ bad' = bad \cup FieldRace(t, rd[t].n)
  /\ rd' = [rd EXCEPT ![t].n = nodes[rd[t].n].links[Idx(RK(t), nodes[rd[t].n].depth)]]
  /\ AcqLoad(t, Loc("L", rd[t].n, Idx(RK(t), nodes[rd[t].n].depth)), "find.link.load.0")
  /\ UNCHANGED <<root, nodes, nextId, w, present, gen>>

FMask(t) ==
  /\ rd[t].pc = "f_node" /\ rd[t].n # 0
  /\ Pfx(RK(t), nodes[rd[t].n].depth) = nodes[rd[t].n].prefix /\ nodes[rd[t].n].leaf
  /\ bad' = bad \cup FieldRace(t, rd[t].n)
  /\ rd' = [rd EXCEPT ![t] = [@ EXCEPT !.m = nodes[rd[t].n].mask, !.pc = "f_val"]]
  /\ AcqLoad(t, Loc("M", rd[t].n, 0), "find.mask.load.0")
  /\ UNCHANGED <<root, nodes, nextId, w, present, gen>>

\* API return: null, or the value whose construction must happen-before the read
FVal(t) ==
  /\ rd[t].pc = "f_val"
  /\ LET x == Idx(RK(t), LeafDepth)
         found == x \in rd[t].m
         v == nodes[rd[t].n].val[x] IN
     bad' = bad \cup Finish(t, found)
               \cup (IF found /\ (v = <<>> \/ v[1] # RK(t)) THEN {"ResultSound"} ELSE {})
               \cup (IF found /\ v # <<>> /\ <<"val", rd[t].n, x, v[2]>> \notin hb[t] THEN {"NoUninitRead_Value"} ELSE {})
  /\ rd' = [rd EXCEPT ![t] = [InitR EXCEPT !.i = rd[t].i + 1]]
  /\ UNCHANGED <<root, nodes, nextId, w, hb, rel, present, gen>>

-----------------------------------------------------------------------------
WStep == InsStart \/ C1Mask \/ C1Pub \/ C2Mask \/ C2Null \/ C2L1 \/ C2L2 \/ C2Pub \/ C3Load \/ C3Store \/ WLink
         \/ WRet \/ EraseStart \/ ELink \/ ELoad \/ EStore
RStep(t) == FRoot(t) \/ FNull(t) \/ FLink(t) \/ FMask(t) \/ FVal(t)

Next == WStep \/ \E t \in Readers : RStep(t)
Spec == Init /\ [][Next]_vars

-----------------------------------------------------------------------------
\* C10
NoViolation == bad = {}
TypeOK == nextId \in 1..(MaxNodes + 1) /\ root \in 0..MaxNodes

\* structural sanity of what readers can reach: a published link points to an initialised node
\* whose prefix extends the parent's
Reachable(n) == n # 0 => nodes[n].alloc
LinksSane == /\ Reachable(root)
             /\ \A id \in 1..MaxNodes : nodes[id].alloc /\ ~nodes[id].leaf =>
                   \A x \in Digits : LET c == nodes[id].links[x] IN
                      c # 0 => /\ nodes[c].alloc /\ nodes[c].depth > nodes[id].depth
                               /\ Pfx(nodes[c].prefix \o <<0>>, nodes[id].depth) = nodes[id].prefix
                               /\ Idx(nodes[c].prefix \o <<0>>, nodes[id].depth) = x
Done == w.pc = "idle" /\ w.i > Len(Script) /\ \A t \in Readers : rd[t].pc = "idle" /\ rd[t].i > Len(RKeys[t])
\* at the end every scripted key is where the abstract map says
FinalMapExact == Done => \A k \in Keys : present[k] = (\E id \in 1..MaxNodes :
                     nodes[id].alloc /\ nodes[id].leaf /\ nodes[id].prefix = Pfx(k, LeafDepth) /\ Idx(k, LeafDepth) \in nodes[id].mask)
=============================================================================

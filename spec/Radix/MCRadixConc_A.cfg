CONSTANTS
  L = 3
  Digits = {0,1,2}
  NL = 16
  MaxNodes = 8
  Script <- ScriptA
  Readers = {1,2}
  RKeys <- RKeysA
  MO <- MOpinned
INIT MCInit
NEXT MCNext
VIEW MCView
INVARIANTS TypeOK NoViolation LinksSane FinalMapExact
CHECK_DEADLOCK FALSE

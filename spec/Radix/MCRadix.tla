------------------------------ MODULE MCRadix ------------------------------
EXTENDS Radix, Json
VARIABLE hist
MCInit == Init /\ hist = <<>>
MCNext == \E k \in K :
            \/ FindOrInsert(k) /\ hist' = Append(hist, [op |-> "foi", k |-> k])
            \/ Erase(k) /\ hist' = Append(hist, [op |-> "erase", k |-> k])
MCView == vars
Emit == PrintT(<<"H", ToJson(hist')>>)
=============================================================================

CONSTANTS
  L = 3
  Digits = {0,1,2}
  NL = 16
  MaxNodes = 8
  Script <- ScriptB
  Readers = {1,2}
  RKeys <- RKeysB
  MO <- MOpinned
INIT MCInit
NEXT MCNext
VIEW MCView
INVARIANTS TypeOK NoViolation LinksSane FinalMapExact
CHECK_DEADLOCK FALSE

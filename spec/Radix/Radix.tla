------------------------------- MODULE Radix -------------------------------
(* Sequential meaning of frigg's rcu_radixtree (property C09): an exact map from  *)
(* 64-bit keys to values with stable addresses and ordered iteration.              *)
(*                                                                                 *)
(* Keys are abstract here (a finite set K with a total order given by Rank); the   *)
(* trace specification instantiates them with 16-nibble arrays.                    *)
(* State: present keys with the address and the content of their value, plus the   *)
(* set of keys ever inserted (the tree never removes nodes, so the *structure* is  *)
(* a function of that set - this is what makes the bounded graph cover every       *)
(* insertion case from every reachable structure).                                 *)
EXTENDS Naturals, Sequences, FiniteSets, TLC

CONSTANTS K,          \* key ids, e.g. 1..5
          MaxGen      \* how often a key may be (re-)inserted

VARIABLES present,    \* present[k] \in BOOLEAN
          gen,        \* gen[k]: number of insertions of k so far (the value inserted last is <<k, gen[k]>>)
          ever        \* keys ever inserted

vars == <<present, gen, ever>>

Init == /\ present = [k \in K |-> FALSE]
        /\ gen = [k \in K |-> 0]
        /\ ever = {}

\* find_or_insert(k, v): inserts iff absent, reports which
FindOrInsert(k) ==
  /\ IF present[k]
     THEN UNCHANGED vars
     ELSE /\ gen[k] < MaxGen
          /\ present' = [present EXCEPT ![k] = TRUE]
          /\ gen' = [gen EXCEPT ![k] = @ + 1]
          /\ ever' = ever \cup {k}

\* erase(k): only legal for a present key (the library asserts otherwise)
Erase(k) ==
  /\ present[k]
  /\ present' = [present EXCEPT ![k] = FALSE]
  /\ UNCHANGED <<gen, ever>>

\* find(k) does not change the state; its result is checked in the trace specification
Find(k) == UNCHANGED vars

Next == \E k \in K : FindOrInsert(k) \/ Erase(k)
Spec == Init /\ [][Next]_vars

-----------------------------------------------------------------------------
\* what the API must answer in a state
Lookup(k) == IF present[k] THEN <<k, gen[k]>> ELSE <<>>
PresentKeys == {k \in K : present[k]}

TypeOK == /\ \A k \in K : gen[k] \in 0..MaxGen
          /\ ever \subseteq K
          /\ PresentKeys \subseteq ever
PresentImpliesInserted == \A k \in K : present[k] => gen[k] > 0
=============================================================================

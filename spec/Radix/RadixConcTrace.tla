--------------------------- MODULE RadixConcTrace ---------------------------
(* Property-layer trace specification for C10 (lock-free readers of the radix     *)
(* tree).  It does not know the tree algorithm.  From the recorded events it       *)
(* maintains the abstract key set (a key is present from the return of its insert  *)
(* until the call of its erase) and the happens-before ghost (HB.tla) driven by     *)
(* every atomic access with the memory order the code passed; node allocation and   *)
(* value construction are the plain writes readers must be ordered after.           *)
EXTENDS Integers, Sequences, FiniteSets, TLC, HB, TraceBase

VARIABLES nthreads, nkeys,
          present,     \* present[k]
          must,        \* must[t]: the key of t's current find was present when it began and has not been erased since
          cur,         \* cur[t]: key of the find in progress (0 = none)
          hb, rel,
          l, nchk

svars == <<nthreads, nkeys, present, must, cur, hb, rel>>
tvars == <<svars, l, nchk>>

RelOf(x) == IF x \in DOMAIN rel THEN rel[x] ELSE {}
LocOf(ev) == <<ev.vc, ev.b, ev.off>>

HbAfter(ev) == IF ev.k \in {"load", "rmw", "casfail"}
               THEN [hb EXCEPT ![ev.t] = AfterAcquire(@, RelOf(LocOf(ev)), ev.mo)] ELSE hb

Accepts(ev) ==
  CASE ev.e = "Alloc" -> TRUE
    [] ev.e = "Construct" -> TRUE
    [] ev.e = "A" ->
         /\ G("C10", "KnownOrder", ev.mo \in Orders)
         \* a reader that obtained a node pointer goes on to read the node's prefix and depth:
         \* the node's initialisation must happen-before that read
         /\ G("C10", "NoUninitRead_NodeFields",
              (ev.op = "find" /\ ev.k = "load" /\ ev.vc \in {"root", "link"} /\ ev.val # 0)
                 => <<"init", ev.val>> \in HbAfter(ev)[ev.t])
    [] ev.e = "WCall" -> TRUE
    [] ev.e = "WRet" -> G("C10", "InsertedFlagExact", ev.op = "ins" => (ev.ins = 1) = ~present[ev.k])
    [] ev.e = "FindCall" -> TRUE
    [] ev.e = "FindRet" ->
         /\ G("C10", "PresentFound", must[ev.t] => ev.r # 0)
         /\ G("C10", "ResultSound_ExactKeyFullyInitialised", ev.r # 0 => (ev.vk = ev.k /\ ev.ok = 1))
         /\ G("C10", "NoUninitRead_Value", ev.r # 0 => <<"val", ev.r, ev.vg>> \in hb[ev.t])
    [] ev.e = "ThreadDone" -> TRUE
    [] ev.e = "End" -> TRUE
    [] ev.e = "stall" -> G("C10", "NoStall", FALSE)
    [] ev.e = "panic" -> G("C10", "NoPanicInLegalState", FALSE)
    [] ev.e = "crash" -> G("C10", "NoCrash", FALSE)
    [] ev.e = "hang" -> G("C10", "EveryCallReturns", FALSE)
    [] OTHER -> G("C10", "UnmatchableEvent", FALSE)

U(xs) == UNCHANGED xs

Apply(ev) ==
  CASE ev.e = "Alloc" ->
         /\ hb' = [hb EXCEPT ![0] = @ \cup {<<"init", ev.b>>}]
         /\ U(<<nthreads, nkeys, present, must, cur, rel>>)
    [] ev.e = "Construct" ->
         /\ hb' = [hb EXCEPT ![ev.t] = @ \cup {<<"val", ev.r, ev.gen>>}]
         /\ U(<<nthreads, nkeys, present, must, cur, rel>>)
    [] ev.e = "A" ->
         /\ hb' = HbAfter(ev)
         /\ rel' = IF ev.k = "store" THEN (LocOf(ev) :> AfterStore(hb[ev.t], ev.mo)) @@ rel
                   ELSE IF ev.k = "rmw" THEN (LocOf(ev) :> AfterRmw(hb[ev.t], RelOf(LocOf(ev)), ev.mo)) @@ rel
                   ELSE rel
         /\ U(<<nthreads, nkeys, present, must, cur>>)
    [] ev.e = "WCall" ->
         IF ev.op = "erase"
         THEN /\ present' = [present EXCEPT ![ev.k] = FALSE]
              /\ must' = [t \in DOMAIN must |-> IF cur[t] = ev.k THEN FALSE ELSE must[t]]
              /\ U(<<nthreads, nkeys, cur, hb, rel>>)
         ELSE U(svars)
    [] ev.e = "WRet" ->
         IF ev.op = "ins"
         THEN present' = [present EXCEPT ![ev.k] = TRUE] /\ U(<<nthreads, nkeys, must, cur, hb, rel>>)
         ELSE U(svars)
    [] ev.e = "FindCall" ->
         /\ must' = [must EXCEPT ![ev.t] = present[ev.k]]
         /\ cur' = [cur EXCEPT ![ev.t] = ev.k]
         /\ U(<<nthreads, nkeys, present, hb, rel>>)
    [] ev.e = "FindRet" ->
         /\ must' = [must EXCEPT ![ev.t] = FALSE]
         /\ cur' = [cur EXCEPT ![ev.t] = 0]
         /\ U(<<nthreads, nkeys, present, hb, rel>>)
    [] OTHER -> U(svars)

ResetTo(ev) ==
  /\ nthreads' = ev.threads /\ nkeys' = Len(ev.keys)
  /\ present' = [k \in 1..Len(ev.keys) |-> FALSE]
  /\ must' = [t \in 0..(ev.threads - 1) |-> FALSE]
  /\ cur' = [t \in 0..(ev.threads - 1) |-> 0]
  /\ hb' = [t \in 0..(ev.threads - 1) |-> {}]
  /\ rel' = <<>>

TraceInit == /\ nthreads = 0 /\ nkeys = 0 /\ present = <<>> /\ must = <<>> /\ cur = <<>> /\ hb = <<>> /\ rel = <<>>
             /\ l = 1 /\ nchk = 0 /\ InitDiag

TraceNext ==
  \/ /\ l <= NLines
     /\ LET ev == TraceLog[l] IN
        IF ev.e = "Reset" THEN ResetTo(ev) /\ l' = l + 1 /\ nchk' = nchk
        ELSE IF Accepts(ev) THEN Apply(ev) /\ l' = l + 1 /\ nchk' = nchk + 1
        ELSE ReportReject(l) /\ l' = NextResetFrom(l + 1) /\ UNCHANGED <<svars, nchk>>
  \/ /\ l = NLines + 1 /\ ReportDone(nchk) /\ l' = l + 1 /\ UNCHANGED <<svars, nchk>>

Sane == nthreads \in Nat
=============================================================================

INIT TraceInit
NEXT TraceNext
INVARIANT AddressesInjective
CHECK_DEADLOCK FALSE

---------------------------- MODULE SeqContainers ----------------------------
(* Abstract sequences for frigg's sequence containers (property C13): vector,      *)
(* small_vector<N>, dyn_array, stack, list and intrusive_list.  Two container        *)
(* variables ("slots") s[1], s[2] hold sequences of values; an operation is a record  *)
(* op = [name, d (destination slot), x, y] and Eff(op, s) is the state after it.      *)
(* What each operation must leave behind is the whole content of this module; the      *)
(* observers (size, empty, front, back, indexing, iteration both ways, ==) are          *)
(* functions of the sequences and are compared in the trace specification.              *)
EXTENDS Naturals, Sequences, FiniteSets, TLC

CONSTANTS Kind,       \* "vector" | "small_vector" | "dyn_array" | "stack" | "list" | "ilist"
          Values,     \* values pushed (0 is the default-constructed value)
          MaxLen,     \* bound on the length of slot 1
          MaxLen2     \* bound on the length of slot 2

VARIABLES s           \* s[1], s[2]
vars == <<s>>

Other(d) == 3 - d
Rep(n, v) == [i \in 1..n |-> v]
Take(q, n) == SubSeq(q, 1, n)
ResizeTo(q, n, v) == IF n <= Len(q) THEN Take(q, n) ELSE q \o Rep(n - Len(q), v)
Without(q, i) == SubSeq(q, 1, i - 1) \o SubSeq(q, i + 1, Len(q))
InsertAt(q, i, e) == SubSeq(q, 1, i - 1) \o <<e>> \o SubSeq(q, i, Len(q))
IndexOf(q, e) == CHOOSE i \in 1..Len(q) : q[i] = e
Members(q) == {q[i] : i \in 1..Len(q)}

Names ==
  CASE Kind = "vector" -> {"push", "push_alias", "push_move", "emplace", "pop", "resize", "resize_val", "clear",
                           "copy_construct", "move_construct", "copy_assign", "move_assign", "swap"}
    [] Kind = "small_vector" -> {"push", "push_alias", "push_move", "emplace", "pop", "resize", "resize_val",
                                 "copy_construct", "move_construct", "swap"}
    [] Kind = "dyn_array" -> {"construct_n", "set", "copy_construct", "move_construct", "copy_assign", "move_assign", "swap"}
    [] Kind = "stack" -> {"push", "emplace", "pop"}
    [] Kind = "list" -> {"emplace", "pop_front"}
    [] Kind = "ilist" -> {"push_front", "push_back", "insert_before", "erase", "pop_front", "pop_back", "clear", "splice_end"}

\* is op legal in state st (documented preconditions: no pop of an empty container, ...)
Legal(op, st) ==
  LET a == st[op.d] IN
  CASE op.name \in {"push", "push_move", "emplace"} -> TRUE
    \* push(c[0]): the argument refers to an element of the container itself (as std::vector allows)
    [] op.name = "push_alias" -> a # <<>>
    [] op.name \in {"pop", "pop_front", "pop_back"} -> a # <<>>
    [] op.name \in {"resize", "resize_val", "construct_n", "clear"} -> TRUE
    [] op.name = "set" -> op.x \in 1..Len(a)
    [] op.name \in {"copy_construct", "move_construct", "copy_assign", "move_assign", "swap", "splice_end"} -> TRUE
    \* intrusive list: an element is in at most one list
    [] op.name \in {"push_front", "push_back"} -> op.x \notin Members(st[1]) \cup Members(st[2])
    [] op.name = "insert_before" -> op.x \notin Members(st[1]) \cup Members(st[2]) /\ (op.y = 0 \/ op.y \in Members(a))
    [] op.name = "erase" -> op.x \in Members(a)
    [] OTHER -> FALSE

Eff(op, st) ==
  LET d == op.d
      o == Other(op.d)
      a == st[op.d] IN
  CASE op.name \in {"push", "push_move", "emplace", "push_back"} -> [st EXCEPT ![d] = Append(a, op.x)]
    [] op.name = "push_alias" -> [st EXCEPT ![d] = Append(a, a[1])]
    [] op.name = "pop" -> [st EXCEPT ![d] = Take(a, Len(a) - 1)]
    [] op.name = "pop_back" -> [st EXCEPT ![d] = Take(a, Len(a) - 1)]
    [] op.name = "pop_front" -> [st EXCEPT ![d] = Tail(a)]
    [] op.name = "resize" -> [st EXCEPT ![d] = ResizeTo(a, op.x, 0)]
    [] op.name = "resize_val" -> [st EXCEPT ![d] = ResizeTo(a, op.x, op.y)]
    [] op.name = "construct_n" -> [st EXCEPT ![d] = Rep(op.x, 0)]
    [] op.name = "set" -> [st EXCEPT ![d] = [a EXCEPT ![op.x] = op.y]]
    [] op.name = "clear" -> [st EXCEPT ![d] = <<>>]
    \* the destination is destroyed and constructed anew from the other slot
    [] op.name = "copy_construct" -> [st EXCEPT ![d] = st[o]]
    [] op.name = "copy_assign" -> [st EXCEPT ![d] = st[o]]
    \* a moved-from container is empty
    [] op.name = "move_construct" -> [st EXCEPT ![d] = st[o], ![o] = <<>>]
    [] op.name = "move_assign" -> [st EXCEPT ![d] = st[o], ![o] = <<>>]
    [] op.name = "swap" -> [st EXCEPT ![d] = st[o], ![o] = a]
    [] op.name = "push_front" -> [st EXCEPT ![d] = <<op.x>> \o a]
    [] op.name = "insert_before" -> [st EXCEPT ![d] = IF op.y = 0 THEN Append(a, op.x) ELSE InsertAt(a, IndexOf(a, op.y), op.x)]
    [] op.name = "erase" -> [st EXCEPT ![d] = Without(a, IndexOf(a, op.x))]
    [] op.name = "splice_end" -> [st EXCEPT ![d] = a \o st[o], ![o] = <<>>]

\* what pop()/top() hand back
Result(op, st) == CASE op.name \in {"pop", "pop_back"} -> st[op.d][Len(st[op.d])]
                    [] op.name = "pop_front" -> Head(st[op.d])
                    [] OTHER -> 0

ValueOps == {"push", "push_move", "emplace", "push_front", "push_back"}
Ops ==
  { [name |-> nm, d |-> d, x |-> x, y |-> y] :
      nm \in Names, d \in (IF Kind \in {"stack", "list"} THEN {1} ELSE {1, 2}),
      x \in 0..(MaxLen + 1) \cup Values, y \in {0} \cup Values }

\* canonical arguments only (keeps the graph free of duplicates)
Canon(op) ==
  CASE op.name \in ValueOps -> op.x \in Values /\ op.y = 0
    [] op.name \in {"resize", "construct_n"} -> op.x \in 0..(MaxLen + 1) /\ op.y = 0
    [] op.name = "resize_val" -> op.x \in 0..(MaxLen + 1) /\ op.y \in Values
    [] op.name = "set" -> op.y \in Values
    [] op.name = "insert_before" -> op.x \in Values /\ op.y \in {0} \cup Values
    [] op.name = "erase" -> op.x \in Values /\ op.y = 0
    [] OTHER -> op.x = 0 /\ op.y = 0

Bounded(st) == Len(st[1]) <= MaxLen /\ Len(st[2]) <= MaxLen2

Init == s = <<(<<>>), (<<>>)>>
Do(op) == Canon(op) /\ Legal(op, s) /\ Bounded(Eff(op, s)) /\ s' = Eff(op, s)
Next == \E op \in Ops : Do(op)
Spec == Init /\ [][Next]_vars

TypeOK == Bounded(s)
\* intrusive lists: an element is linked at most once
NoDuplicateNodes == Kind = "ilist" => (Cardinality(Members(s[1]) \cup Members(s[2])) = Len(s[1]) + Len(s[2]))
=============================================================================

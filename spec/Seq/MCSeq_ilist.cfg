CONSTANTS
  Kind = "ilist"
  Values = {1,2,3,4}
  MaxLen = 4
  MaxLen2 = 2
INIT MCInit
NEXT MCNext
VIEW MCView
INVARIANTS TypeOK NoDuplicateNodes
ACTION_CONSTRAINT Emit
CHECK_DEADLOCK FALSE

------------------------------ MODULE SeqTrace ------------------------------
(* Trace specification for C13: every recorded container operation must be a legal *)
(* SeqContainers operation, and everything the real container lets the program      *)
(* observe afterwards must be what the abstract sequences say.                       *)
(* The container kind changes per execution, so the operators of SeqContainers that  *)
(* do not depend on the constant Kind are reused through a local instance.           *)
EXTENDS Integers, Sequences, FiniteSets, TLC, TraceBase

VARIABLES kind, s, l, nchk
svars == <<kind, s>>
tvars == <<svars, l, nchk>>

SC == INSTANCE SeqContainers WITH Kind <- "vector", Values <- {1}, MaxLen <- 1, MaxLen2 <- 1, s <- s

OpOf(ev) == [name |-> ev.name, d |-> ev.d, x |-> ev.x, y |-> ev.y]
Rev(q) == [i \in 1..Len(q) |-> q[Len(q) + 1 - i]]
B(b) == IF b THEN 1 ELSE 0
FrontOf(q) == IF q = <<>> THEN -1 ELSE q[1]
BackOf(q) == IF q = <<>> THEN -1 ELSE q[Len(q)]

\* what the program must see of one slot: <<size, empty, front, back, indexed, iterated, reverse-iterated>>
\* (-1 / <<>> where the container kind has no such observer)
Expected(k, q) ==
  CASE k \in {"vector", "small_vector"} -> <<Len(q), B(q = <<>>), FrontOf(q), BackOf(q), q, q, <<>> >>
    [] k = "dyn_array" -> <<Len(q), B(q = <<>>), -1, -1, q, q, <<>> >>
    [] k = "stack" -> <<Len(q), B(q = <<>>), -1, BackOf(q), <<>>, <<>>, <<>> >>
    [] k = "list" -> <<-1, B(q = <<>>), FrontOf(q), -1, <<>>, <<>>, <<>> >>
    [] k = "ilist" -> <<-1, B(q = <<>>), FrontOf(q), BackOf(q), <<>>, q, Rev(q)>>
OneSlot == kind \in {"stack", "list"}

Accepts(ev) ==
  CASE ev.e = "Op" ->
         LET op == OpOf(ev)
             st == SC!Eff(op, s) IN
         /\ G("C13", "LegalOperation", SC!Legal(op, s))
         /\ G("C13", "ReturnedValue", ev.name \in {"pop", "pop_front", "pop_back", "erase"} =>
                ev.res = (IF ev.name = "erase" THEN ev.x ELSE SC!Result(op, s)))
         /\ (ev.chk = 0 \/
             (/\ G("C13", "ObserversAgreeWithSequence_Slot1", ev.obs[1] = Expected(kind, st[1]))
              /\ G("C13", "ObserversAgreeWithSequence_Slot2", OneSlot \/ ev.obs[2] = Expected(kind, st[2]))
              /\ G("C13", "ConstObserversAgreeWithSequence", Has(ev, "cobs") => (ev.cobs[1] = Expected(kind, st[1]) /\ (OneSlot \/ ev.cobs[2] = Expected(kind, st[2]))))
              /\ G("C13", "EqualityAgrees", kind = "vector" => ev.eq = B(st[1] = st[2]))))
    [] ev.e \in {"Ctor", "Dtor", "Assign", "Alloc", "Dealloc", "Free", "OpBegin", "AliasPush", "AliasArg"} -> TRUE     \* ledger events: C16; marker
    [] ev.e = "OwnerGone" -> TRUE
    [] ev.e = "panic" -> G("C13", "NoPanicInLegalState", FALSE)
    [] ev.e = "crash" -> G("C13", "ReadsAndWritesOnlyOwnStorage_NoCrash", FALSE)
    [] ev.e = "hang" -> G("C13", "EveryCallReturns", FALSE)
    [] OTHER -> G("C13", "UnmatchableEvent", FALSE)

Apply(ev) == IF ev.e = "Op" THEN s' = SC!Eff(OpOf(ev), s) /\ kind' = kind ELSE UNCHANGED svars
ResetTo(ev) == kind' = ev.kind /\ s' = <<(<<>>), (<<>>)>>
TraceInit == kind = "" /\ s = <<(<<>>), (<<>>)>> /\ l = 1 /\ nchk = 0 /\ InitDiag
TraceNext ==
  \/ /\ l <= NLines
     /\ LET ev == TraceLog[l] IN
        IF ev.e = "Reset" THEN ResetTo(ev) /\ l' = l + 1 /\ nchk' = nchk
        ELSE IF Accepts(ev) THEN Apply(ev) /\ l' = l + 1 /\ nchk' = nchk + (IF ev.e = "Op" THEN 1 ELSE 0)
        ELSE ReportReject(l) /\ l' = NextResetFrom(l + 1) /\ UNCHANGED <<svars, nchk>>
  \/ /\ l = NLines + 1 /\ ReportDone(nchk) /\ l' = l + 1 /\ UNCHANGED <<svars, nchk>>
TwoSlots == Len(s) = 2
=============================================================================

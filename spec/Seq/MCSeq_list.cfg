CONSTANTS
  Kind = "list"
  Values = {1,2}
  MaxLen = 7
  MaxLen2 = 0
INIT MCInit
NEXT MCNext
VIEW MCView
INVARIANTS TypeOK NoDuplicateNodes
ACTION_CONSTRAINT Emit
CHECK_DEADLOCK FALSE

CONSTANTS
  Kind = "vector"
  Values = {1,2}
  MaxLen = 6
  MaxLen2 = 1
INIT MCInit
NEXT MCNext
VIEW MCView
INVARIANTS TypeOK NoDuplicateNodes
ACTION_CONSTRAINT Emit
CHECK_DEADLOCK FALSE

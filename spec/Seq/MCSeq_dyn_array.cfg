CONSTANTS
  Kind = "dyn_array"
  Values = {1,2}
  MaxLen = 3
  MaxLen2 = 3
INIT MCInit
NEXT MCNext
VIEW MCView
INVARIANTS TypeOK NoDuplicateNodes
ACTION_CONSTRAINT Emit
CHECK_DEADLOCK FALSE

------------------------------ MODULE TraceBase ------------------------------
(* Shared plumbing of every trace specification.                                   *)
(*                                                                                 *)
(* A trace is an ndjson file recorded from the real code (one event per line,      *)
(* executions separated by {"e":"Reset",...}).  A trace specification EXTENDS the  *)
(* component specification and this module, and defines                            *)
(*     Accepts(ev)  - the guards of the spec action that event ev claims to be,    *)
(*                    every clause wrapped in G(property, clause, condition)       *)
(*     Apply(ev)    - the effect of that action, with logged values resolving the  *)
(*                    spec's nondeterminism                                        *)
(* Control flow never depends on the diagnostic register: G(...) only remembers    *)
(* which clause was false so that a rejection can name it.                         *)
(* A rejected execution is reported with <<"REJECT", line, property, clause>> and  *)
(* skipped up to the next Reset, so the rest of the trace is still checked.        *)
EXTENDS Naturals, Sequences, TLC, Json, IOUtils

TraceLog == ndJsonDeserialize(IOEnv.TRACE)
NLines   == Len(TraceLog)

\* The property whose check is running (environment variable OWN; unset = none).  A trace specification shared by
\* several properties (SlabTrace: C01-C05, RBTreeTrace: C06/C07) must not let a clause of ANOTHER property that fails
\* first hide a failing clause of the running one: with OWN set, a failing foreign clause is remembered and evaluation
\* goes on; the event is rejected either way, but it is attributed to the running property if one of ITS clauses fails
\* on the same event, and to the first failing foreign clause otherwise.  Such a specification wraps its acceptance
\* test in Judged(...).  GD is for clauses that later clauses depend on (legality of the driver's own call, domain
\* membership): it always stops the evaluation.  With OWN unset G behaves like GD.
Own == IF "OWN" \in DOMAIN IOEnv THEN IOEnv.OWN ELSE ""
GD(pid, clause, cond) == cond \/ (TLCSet(1, <<pid, clause>>) /\ FALSE)
G(pid, clause, cond) ==
  IF cond THEN TRUE
  ELSE IF Own = "" \/ pid = Own THEN TLCSet(1, <<pid, clause>>) /\ FALSE
  ELSE (IF TLCGet(2) = <<>> THEN TLCSet(2, <<pid, clause>>) ELSE TRUE)
Judged(acc) == TLCSet(2, <<>>) /\ acc /\ (TLCGet(2) = <<>> \/ (TLCSet(1, TLCGet(2)) /\ FALSE))

Has(ev, f) == f \in DOMAIN ev

\* line numbers of the Reset events (a constant of the run: evaluated once)
ResetLines == {i \in 1..NLines : TraceLog[i].e = "Reset"}
\* first Reset at or after line j, or one past the end
NextResetFrom(j) == LET later == {i \in ResetLines : i >= j} IN
                    IF later = {} THEN NLines + 1 ELSE CHOOSE i \in later : \A k \in later : i <= k

InitDiag == TLCSet(1, <<"?", "?">>) /\ TLCSet(2, <<>>)

ReportReject(line) == PrintT(<<"REJECT", line, TLCGet(1)[1], TLCGet(1)[2]>>)
ReportDone(nchk)   == PrintT(<<"DONE", NLines, nchk>>)
=============================================================================

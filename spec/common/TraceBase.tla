------------------------------ MODULE TraceBase ------------------------------
(* Shared plumbing of every trace specification.                                   *)
(*                                                                                 *)
(* A trace is an ndjson file recorded from the real code (one event per line,      *)
(* executions separated by {"e":"Reset",...}).  A trace specification EXTENDS the  *)
(* component specification and this module, and defines                            *)
(*     Accepts(ev)  - the guards of the spec action that event ev claims to be,    *)
(*                    every clause wrapped in G(property, clause, condition)       *)
(*     Apply(ev)    - the effect of that action, with logged values resolving the  *)
(*                    spec's nondeterminism                                        *)
(* Control flow never depends on the diagnostic register: G(...) only remembers    *)
(* which clause was false so that a rejection can name it.                         *)
(* A rejected execution is reported with <<"REJECT", line, property, clause>> and  *)
(* skipped up to the next Reset, so the rest of the trace is still checked.        *)
EXTENDS Naturals, Sequences, TLC, Json, IOUtils

TraceLog == ndJsonDeserialize(IOEnv.TRACE)
NLines   == Len(TraceLog)

G(pid, clause, cond) == cond \/ (TLCSet(1, <<pid, clause>>) /\ FALSE)

Has(ev, f) == f \in DOMAIN ev

\* line numbers of the Reset events (a constant of the run: evaluated once)
ResetLines == {i \in 1..NLines : TraceLog[i].e = "Reset"}
\* first Reset at or after line j, or one past the end
NextResetFrom(j) == LET later == {i \in ResetLines : i >= j} IN
                    IF later = {} THEN NLines + 1 ELSE CHOOSE i \in later : \A k \in later : i <= k

InitDiag == TLCSet(1, <<"?", "?">>)

ReportReject(line) == PrintT(<<"REJECT", line, TLCGet(1)[1], TLCGet(1)[2]>>)
ReportDone(nchk)   == PrintT(<<"DONE", NLines, nchk>>)
=============================================================================

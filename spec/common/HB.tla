--------------------------------- MODULE HB ---------------------------------
(* Happens-before bookkeeping shared by the concurrent specifications.              *)
(* Values follow the interleaving (a load returns the latest store); ordering is    *)
(* tracked with finite marker sets: hb[t] = plain writes thread t has synchronised  *)
(* with, rel[x] = markers attached to atomic location x by its release sequence.    *)
(* Memory orders are strings: "rlx" "acq" "rel" "acqrel" "sc".                      *)
IsAcq(mo) == mo \in {"acq", "acqrel", "sc"}
IsRel(mo) == mo \in {"rel", "acqrel", "sc"}
Orders == {"rlx", "acq", "rel", "acqrel", "sc"}

\* thread's marker set after a load / the acquire half of an RMW of x
AfterAcquire(hbT, relX, mo) == IF IsAcq(mo) THEN hbT \cup relX ELSE hbT
\* markers attached to x after a plain atomic store: a release store publishes hb[t],
\* a relaxed store publishes nothing and ends the release sequence
AfterStore(hbT, mo) == IF IsRel(mo) THEN hbT ELSE {}
\* markers attached to x after an RMW: it continues the release sequence in any case
AfterRmw(hbT, relX, mo) == IF IsRel(mo) THEN relX \cup hbT ELSE relX
=============================================================================

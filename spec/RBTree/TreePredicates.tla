--------------------------- MODULE TreePredicates ---------------------------
(* The predicates of properties C06 (red-black tree) and C07 (interval tree) over   *)
(* an arbitrary shape record t = [root, left, right, parent, pred, succ, color, max] *)
(* and an element sequence s.  Used both as invariants of RBTreeImpl and as guards   *)
(* of the trace specification, where t is the shape logged from the real tree.        *)
(* `fuel` bounds every walk so that a corrupt (cyclic) shape is rejected, not looped. *)
EXTENDS Naturals, Sequences, FiniteSets

PMax2(a, b) == IF a < b THEN b ELSE a
PIsRed(t, n) == n # 0 /\ t.color[n] = "r"

RECURSIVE InOrderWalk(_, _, _)
InOrderWalk(t, n, fuel) ==
  IF n = 0 \/ fuel = 0 THEN <<>>
  ELSE InOrderWalk(t, t.left[n], fuel - 1) \o <<n>> \o InOrderWalk(t, t.right[n], fuel - 1)

RECURSIVE LeftMost(_, _, _)
LeftMost(t, n, fuel) == IF n = 0 \/ fuel = 0 THEN n ELSE IF t.left[n] = 0 THEN n ELSE LeftMost(t, t.left[n], fuel - 1)
First(t, fuel) == LeftMost(t, t.root, fuel)

RECURSIVE SuccWalk(_, _, _)
SuccWalk(t, n, fuel) == IF n = 0 \/ fuel = 0 THEN <<>> ELSE <<n>> \o SuccWalk(t, t.succ[n], fuel - 1)

RECURSIVE BlackHeight(_, _, _)   \* 0 if the subtree violates equal black height or has a red node with a red child
BlackHeight(t, n, fuel) ==
  IF n = 0 THEN 1
  ELSE IF fuel = 0 THEN 0
  ELSE LET a == BlackHeight(t, t.left[n], fuel - 1)
           b == BlackHeight(t, t.right[n], fuel - 1) IN
       IF a = 0 \/ b = 0 \/ a # b THEN 0
       ELSE IF t.color[n] = "r" /\ (PIsRed(t, t.left[n]) \/ PIsRed(t, t.right[n])) THEN 0
       ELSE IF t.color[n] = "b" THEN a + 1 ELSE IF t.color[n] = "r" THEN a ELSE 0

RECURSIVE Height(_, _, _)
Height(t, n, fuel) == IF n = 0 \/ fuel = 0 THEN 0
                      ELSE 1 + PMax2(Height(t, t.left[n], fuel - 1), Height(t, t.right[n], fuel - 1))
RECURSIVE Pow2(_)
Pow2(i) == IF i = 0 THEN 1 ELSE 2 * Pow2(i - 1)

InOrderIsOrder(t, s, fuel) == InOrderWalk(t, t.root, fuel) = s
SuccWalkIsOrder(t, s, fuel) == SuccWalk(t, First(t, fuel), Len(s) + 1) = s
PredSuccInverse(t, s) == \A i \in 1..Len(s) :
                            /\ t.pred[s[i]] = (IF i = 1 THEN 0 ELSE s[i - 1])
                            /\ t.succ[s[i]] = (IF i = Len(s) THEN 0 ELSE s[i + 1])
ParentMatchesChild(t, s) ==
  /\ (t.root # 0 => t.parent[t.root] = 0)
  /\ \A i \in 1..Len(s) : LET n == s[i] IN
        /\ (t.left[n] # 0 => t.parent[t.left[n]] = n)
        /\ (t.right[n] # 0 => t.parent[t.right[n]] = n)
        /\ (t.parent[n] # 0 => (t.left[t.parent[n]] = n \/ t.right[t.parent[n]] = n))
        /\ (t.parent[n] = 0 => t.root = n)
ValidColouring(t, fuel) == (t.root = 0 \/ t.color[t.root] = "b") /\ BlackHeight(t, t.root, fuel) # 0
\* height <= 2 log2(n+1)  <=>  2^(ceil(h/2)) <= n + 1
HeightBound(t, s, fuel) == LET h == Height(t, t.root, fuel) IN Pow2((h + 1) \div 2) <= Len(s) + 1
\* a hook is reset when its five link fields are null (the colour is overwritten on re-insertion)
HookReset(t, e) == t.left[e] = 0 /\ t.right[e] = 0 /\ t.parent[e] = 0 /\ t.pred[e] = 0 /\ t.succ[e] = 0
Sorted(s, lo) == \A i \in 1..(Len(s) - 1) : lo[s[i]] <= lo[s[i + 1]]

\* C07
RECURSIVE SubtreeMax(_, _, _, _)
SubtreeMax(t, n, hi, fuel) == IF n = 0 \/ fuel = 0 THEN 0
                              ELSE PMax2(hi[n], PMax2(SubtreeMax(t, t.left[n], hi, fuel - 1), SubtreeMax(t, t.right[n], hi, fuel - 1)))
AggregateExact(t, s, hi, fuel) == \A i \in 1..Len(s) : t.max[s[i]] = SubtreeMax(t, s[i], hi, fuel)
OverlapSet(s, lo, hi, lb, ub) == {s[i] : i \in {j \in 1..Len(s) : lo[s[j]] <= ub /\ lb <= hi[s[j]]}}
SeqToSet(q) == {q[i] : i \in 1..Len(q)}
ExactlyOnce(q, S) == SeqToSet(q) = S /\ Len(q) = Cardinality(S)
=============================================================================

CONSTANTS
  E = {1,2,3,4,5,6}
  Lo <- IvLo6
  Hi <- IvHi6
  Variant = "less"
INIT MCInit
NEXT MCNext
VIEW MCView
INVARIANTS InvOrder InvLinks InvColour InvHooks InvAgg QueriesExact
ACTION_CONSTRAINT Emit
CHECK_DEADLOCK FALSE

------------------------------ MODULE MCRBTree ------------------------------
(* Model-checking wrapper: key tables, history variable, interval queries.          *)
EXTENDS RBTreeImpl, Json

\* keys with many ties (C06); as intervals they are points
Keys6 == <<1, 1, 2, 3, 3, 4>>
Keys7 == <<1, 1, 2, 3, 3, 4, 5>>
Keys8 == <<1, 1, 2, 3, 3, 4, 5, 5>>
Keys9 == <<1, 1, 2, 3, 3, 4, 5, 5, 6>>
\* intervals over the endpoint universe 0..3 (C07): points, nested, touching, duplicates
IvLo6 == <<0, 0, 1, 1, 2, 3>>
IvHi6 == <<3, 1, 1, 2, 2, 3>>
IvLo7 == <<0, 0, 1, 1, 2, 3, 0>>
IvHi7 == <<3, 1, 1, 2, 2, 3, 0>>
IvLo8 == <<0, 0, 1, 1, 2, 3, 0, 2>>
IvHi8 == <<3, 1, 1, 2, 2, 3, 0, 3>>

QMin == 0
QMax == 4
\* every query interval [lb, ub] with lb <= ub over the universe widened by one on each side
\* (universe shifted by +1 in the tables above so that the widened lower bound is 0)
QueriesExact == \A lb \in QMin..QMax : \A ub \in lb..QMax :
                   ExactlyOnce(ForOverlaps(T, lb, ub), OverlapSet(order, Lo, Hi, lb, ub))

VARIABLE hist
MCInit == Init /\ hist = <<>>
MCNext == \E e \in E :
            \/ Insert(e) /\ hist' = Append(hist, [op |-> "ins", e |-> e, b |-> 0])
            \/ Remove(e) /\ hist' = Append(hist, [op |-> "rem", e |-> e, b |-> 0])
            \/ \E b \in E \cup {0} : InsertBefore(b, e) /\ hist' = Append(hist, [op |-> "insb", e |-> e, b |-> b])
MCView == vars
Emit == PrintT(<<"H", ToJson(hist')>>)
=============================================================================

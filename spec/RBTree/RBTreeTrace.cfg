INIT TraceInit
NEXT TraceNext
INVARIANT NoDuplicates
CHECK_DEADLOCK FALSE

----------------------------- MODULE RBTreeImpl -----------------------------
(* Implementation-shaped specification of frigg's intrusive red-black tree         *)
(* (rbtree.hpp: tree_struct / tree_order_struct over tree_crtp_struct) and of the   *)
(* interval tree built on it (interval_tree.hpp).                                   *)
(*                                                                                 *)
(* The tree is the record T = [root, left, right, parent, pred, succ, color, max];  *)
(* insert, insert(before, x), remove, fix_insert, fix_remove, the rotations, the     *)
(* aggregator and for_overlaps are transcribed as operators on T, so that TLC        *)
(* reaches every shape the real code can reach for the bounded element set.          *)
(* The abstract state is `order` (comparator order, equal keys in insertion order).  *)
EXTENDS Naturals, Sequences, FiniteSets, TLC, TreePredicates

CONSTANTS E,          \* elements 1..N
          Lo, Hi,     \* Lo[e] = key of e (lower bound for the interval tree), Hi[e] = upper bound
          Variant     \* "less" (tree_struct) | "order" (tree_order_struct: insert(before, x))

VARIABLES T, order

vars == <<T, order>>

Null == 0
Max2(a, b) == IF a < b THEN b ELSE a

EmptyTree == [root |-> 0,
              left |-> [e \in E |-> 0], right |-> [e \in E |-> 0], parent |-> [e \in E |-> 0],
              pred |-> [e \in E |-> 0], succ |-> [e \in E |-> 0],
              color |-> [e \in E |-> "n"], max |-> [e \in E |-> 0]]

IsRed(t, n) == n # 0 /\ t.color[n] = "r"
IsBlack(t, n) == n = 0 \/ t.color[n] = "b"

-----------------------------------------------------------------------------
\* aggregator of the interval tree: subtree_max
NewMax(t, n) == LET a == Hi[n]
                    b == IF t.left[n] # 0 THEN Max2(a, t.max[t.left[n]]) ELSE a
                IN IF t.right[n] # 0 THEN Max2(b, t.max[t.right[n]]) ELSE b
Agg(t, n) == [t EXCEPT !.max[n] = NewMax(t, n)]
\* aggregate_path: walk upwards while the value changes
RECURSIVE AggPath(_, _)
AggPath(t, n) == IF n = 0 THEN t
                 ELSE IF NewMax(t, n) = t.max[n] THEN t
                 ELSE AggPath(Agg(t, n), t.parent[n])

\* rotateLeft(n): n is the right child of u
RotL(t, n) ==
  LET u == t.parent[n]
      v == t.left[n]
      w == t.parent[u]
      t1 == IF v # 0 THEN [t EXCEPT !.parent[v] = u] ELSE t
      t2 == [t1 EXCEPT !.right[u] = v, !.parent[u] = n, !.left[n] = u, !.parent[n] = w]
      t3 == IF w = 0 THEN [t2 EXCEPT !.root = n]
            ELSE IF t.left[w] = u THEN [t2 EXCEPT !.left[w] = n] ELSE [t2 EXCEPT !.right[w] = n]
  IN Agg(Agg(t3, u), n)

\* rotateRight(n): n is the left child of u
RotR(t, n) ==
  LET u == t.parent[n]
      v == t.right[n]
      w == t.parent[u]
      t1 == IF v # 0 THEN [t EXCEPT !.parent[v] = u] ELSE t
      t2 == [t1 EXCEPT !.left[u] = v, !.parent[u] = n, !.right[n] = u, !.parent[n] = w]
      t3 == IF w = 0 THEN [t2 EXCEPT !.root = n]
            ELSE IF t.left[w] = u THEN [t2 EXCEPT !.left[w] = n] ELSE [t2 EXCEPT !.right[w] = n]
  IN Agg(Agg(t3, u), n)

RECURSIVE FixInsert(_, _)
FixInsert(t, n) ==
  LET p == t.parent[n] IN
  IF p = 0 THEN [t EXCEPT !.color[n] = "b"]
  ELSE
    LET t1 == [t EXCEPT !.color[n] = "r"] IN
    IF t1.color[p] = "b" THEN t1
    ELSE
      LET g == t1.parent[p] IN
      IF t1.left[g] = p /\ IsRed(t1, t1.right[g])
      THEN FixInsert([t1 EXCEPT !.color[g] = "r", !.color[p] = "b", !.color[t1.right[g]] = "b"], g)
      ELSE IF t1.right[g] = p /\ IsRed(t1, t1.left[g])
      THEN FixInsert([t1 EXCEPT !.color[g] = "r", !.color[p] = "b", !.color[t1.left[g]] = "b"], g)
      ELSE IF p = t1.left[g]
      THEN (IF n = t1.right[p]
            THEN [RotR(RotL(t1, n), n) EXCEPT !.color[n] = "b", !.color[g] = "r"]
            ELSE [RotR(t1, p) EXCEPT !.color[p] = "b", !.color[g] = "r"])
      ELSE (IF n = t1.left[p]
            THEN [RotL(RotR(t1, n), n) EXCEPT !.color[n] = "b", !.color[g] = "r"]
            ELSE [RotL(t1, p) EXCEPT !.color[p] = "b", !.color[g] = "r"])

InsertRoot(t, n) == FixInsert(Agg([t EXCEPT !.root = n], n), n)

InsertLeft(t, par, n) ==
  LET pr == t.pred[par]
      t1 == [t EXCEPT !.left[par] = n, !.parent[n] = par]
      t2 == IF pr # 0 THEN [t1 EXCEPT !.succ[pr] = n] ELSE t1
      t3 == [t2 EXCEPT !.pred[n] = pr, !.succ[n] = par, !.pred[par] = n]
  IN FixInsert(AggPath(Agg(t3, n), par), n)

InsertRight(t, par, n) ==
  LET sc == t.succ[par]
      t1 == [t EXCEPT !.right[par] = n, !.parent[n] = par]
      t2 == [t1 EXCEPT !.succ[par] = n, !.pred[n] = par, !.succ[n] = sc]
      t3 == IF sc # 0 THEN [t2 EXCEPT !.pred[sc] = n] ELSE t2
  IN FixInsert(AggPath(Agg(t3, n), par), n)

\* tree_struct::insert: binary descent, equal keys go right
RECURSIVE Descend(_, _, _)
Descend(t, cur, n) ==
  IF Lo[n] < Lo[cur]
  THEN (IF t.left[cur] = 0 THEN InsertLeft(t, cur, n) ELSE Descend(t, t.left[cur], n))
  ELSE (IF t.right[cur] = 0 THEN InsertRight(t, cur, n) ELSE Descend(t, t.right[cur], n))

\* interval_tree::insert initialises subtree_max before handing the node to the tree
Prepared(t, n) == [t EXCEPT !.max[n] = Hi[n]]
TreeInsert(t, n) == IF t.root = 0 THEN InsertRoot(Prepared(t, n), n) ELSE Descend(Prepared(t, n), t.root, n)

RECURSIVE Rightmost(_, _)
Rightmost(t, cur) == IF t.right[cur] = 0 THEN cur ELSE Rightmost(t, t.right[cur])

\* tree_order_struct::insert(before, node)
TreeInsertBefore(t, before, n) ==
  IF before = 0
  THEN (IF t.root = 0 THEN InsertRoot(Prepared(t, n), n) ELSE InsertRight(Prepared(t, n), Rightmost(t, t.root), n))
  ELSE (IF t.left[before] = 0 THEN InsertLeft(Prepared(t, n), before, n)
        ELSE InsertRight(Prepared(t, n), Rightmost(t, t.left[before]), n))

RECURSIVE FixRemove(_, _)
FixRemove(t, n) ==
  LET p == t.parent[n] IN
  IF p = 0 THEN t
  ELSE
    LET lc == t.left[p] = n
        t1 == IF lc
              THEN (IF t.color[t.right[p]] = "r"
                    THEN LET x == t.right[p] IN [RotL(t, x) EXCEPT !.color[p] = "r", !.color[x] = "b"]
                    ELSE t)
              ELSE (IF t.color[t.left[p]] = "r"
                    THEN LET x == t.left[p] IN [RotR(t, x) EXCEPT !.color[p] = "r", !.color[x] = "b"]
                    ELSE t)
        s == IF lc THEN t1.right[p] ELSE t1.left[p]
    IN
    IF IsBlack(t1, t1.left[s]) /\ IsBlack(t1, t1.right[s])
    THEN (IF t1.color[p] = "b"
          THEN FixRemove([t1 EXCEPT !.color[s] = "r"], p)
          ELSE [t1 EXCEPT !.color[p] = "b", !.color[s] = "r"])
    ELSE
      LET pc == t1.color[p] IN
      IF lc
      THEN LET inner == IsRed(t1, t1.left[s]) /\ IsBlack(t1, t1.right[s])
               c == t1.left[s]
               t2 == IF inner THEN [RotR(t1, c) EXCEPT !.color[s] = "r", !.color[c] = "b"] ELSE t1
               s2 == IF inner THEN c ELSE s
               t3 == RotL(t2, s2)
           IN [t3 EXCEPT !.color[p] = "b", !.color[s2] = pc, !.color[t3.right[s2]] = "b"]
      ELSE LET inner == IsRed(t1, t1.right[s]) /\ IsBlack(t1, t1.left[s])
               c == t1.right[s]
               t2 == IF inner THEN [RotL(t1, c) EXCEPT !.color[s] = "r", !.color[c] = "b"] ELSE t1
               s2 == IF inner THEN c ELSE s
               t3 == RotR(t2, s2)
           IN [t3 EXCEPT !.color[p] = "b", !.color[s2] = pc, !.color[t3.left[s2]] = "b"]

ClearLinks(t, n) == [t EXCEPT !.left[n] = 0, !.right[n] = 0, !.parent[n] = 0, !.pred[n] = 0, !.succ[n] = 0]

\* remove_half_leaf(node, child): node has at most the one child `child`
RemoveHalfLeaf(t, n, child) ==
  LET pr == t.pred[n]
      sc == t.succ[n]
      t1 == IF pr # 0 THEN [t EXCEPT !.succ[pr] = sc] ELSE t
      t2 == IF sc # 0 THEN [t1 EXCEPT !.pred[sc] = pr] ELSE t1
      t3 == IF t2.color[n] = "b"
            THEN (IF IsRed(t2, child) THEN [t2 EXCEPT !.color[child] = "b"] ELSE FixRemove(t2, n))
            ELSE t2
      par == t3.parent[n]          \* re-read: fix_remove may have rotated
      t4 == IF par = 0 THEN [t3 EXCEPT !.root = child]
            ELSE IF t3.left[par] = n THEN [t3 EXCEPT !.left[par] = child] ELSE [t3 EXCEPT !.right[par] = child]
      t5 == IF child # 0 THEN [t4 EXCEPT !.parent[child] = par] ELSE t4
      t6 == ClearLinks(t5, n)
  IN IF par # 0 THEN AggPath(t6, par) ELSE t6

\* replace_node(node, replacement)
ReplaceNode(t, n, r) ==
  LET par == t.parent[n]
      l == t.left[n]
      rt == t.right[n]
      t1 == IF par = 0 THEN [t EXCEPT !.root = r]
            ELSE IF n = t.left[par] THEN [t EXCEPT !.left[par] = r] ELSE [t EXCEPT !.right[par] = r]
      t2 == [t1 EXCEPT !.parent[r] = par, !.color[r] = t.color[n], !.left[r] = l, !.right[r] = rt]
      t3 == IF l # 0 THEN [t2 EXCEPT !.parent[l] = r] ELSE t2
      t4 == IF rt # 0 THEN [t3 EXCEPT !.parent[rt] = r] ELSE t3
      t5 == IF t.pred[n] # 0 THEN [t4 EXCEPT !.succ[t.pred[n]] = r] ELSE t4
      t6 == [t5 EXCEPT !.pred[r] = t.pred[n], !.succ[r] = t.succ[n]]
      t7 == IF t.succ[n] # 0 THEN [t6 EXCEPT !.pred[t.succ[n]] = r] ELSE t6
      t8 == ClearLinks(t7, n)
  IN AggPath(Agg(t8, r), par)

TreeRemove(t, n) ==
  IF t.left[n] = 0 THEN RemoveHalfLeaf(t, n, t.right[n])
  ELSE IF t.right[n] = 0 THEN RemoveHalfLeaf(t, n, t.left[n])
  ELSE LET pr == t.pred[n]
           t1 == RemoveHalfLeaf(t, pr, t.left[pr])
       IN ReplaceNode(t1, n, pr)

-----------------------------------------------------------------------------
\* interval_tree::for_overlaps transcribed: returns <<found, sequence of callback invocations>>
RECURSIVE Search(_, _, _, _)
Search(t, lb, ub, n) ==
  LET l == t.left[n]
      r == t.right[n] IN
  IF (Lo[n] <= lb /\ lb <= Hi[n]) \/ (lb <= Lo[n] /\ Lo[n] <= ub)
  THEN <<TRUE, <<n>> \o (IF l # 0 THEN Search(t, lb, ub, l)[2] ELSE <<>>)
                     \o (IF r # 0 THEN Search(t, lb, ub, r)[2] ELSE <<>>)>>
  ELSE IF l # 0 /\ lb <= t.max[l]
  THEN LET sl == Search(t, lb, ub, l) IN
       IF sl[1] THEN <<TRUE, sl[2] \o (IF r # 0 THEN Search(t, lb, ub, r)[2] ELSE <<>>)>>
       ELSE <<FALSE, <<>>>>
  ELSE IF r # 0 THEN Search(t, lb, ub, r)
  ELSE <<FALSE, <<>>>>
ForOverlaps(t, lb, ub) == IF t.root = 0 THEN <<>> ELSE Search(t, lb, ub, t.root)[2]

-----------------------------------------------------------------------------
\* abstract order
InTree == {order[i] : i \in 1..Len(order)}

\* position after the last element whose key is <= the new key
RECURSIVE InsertPos(_, _, _)
InsertPos(s, k, i) == IF i > Len(s) THEN i ELSE IF Lo[s[i]] <= k THEN InsertPos(s, k, i + 1) ELSE i
InsertAt(s, i, e) == SubSeq(s, 1, i - 1) \o <<e>> \o SubSeq(s, i, Len(s))
IndexOf(s, e) == CHOOSE i \in 1..Len(s) : s[i] = e
RemoveFrom(s, e) == LET i == IndexOf(s, e) IN SubSeq(s, 1, i - 1) \o SubSeq(s, i + 1, Len(s))

Init == T = EmptyTree /\ order = <<>>

Insert(e) ==
  /\ Variant = "less" /\ e \notin InTree
  /\ T' = TreeInsert(T, e)
  /\ order' = InsertAt(order, InsertPos(order, Lo[e], 1), e)

InsertBefore(b, e) ==
  /\ Variant = "order" /\ e \notin InTree /\ (b = 0 \/ b \in InTree)
  /\ T' = TreeInsertBefore(T, b, e)
  /\ order' = IF b = 0 THEN Append(order, e) ELSE InsertAt(order, IndexOf(order, b), e)

Remove(e) ==
  /\ e \in InTree
  /\ T' = TreeRemove(T, e)
  /\ order' = RemoveFrom(order, e)

Next == \E e \in E : Insert(e) \/ Remove(e) \/ \E b \in E \cup {0} : InsertBefore(b, e)
Spec == Init /\ [][Next]_vars

-----------------------------------------------------------------------------
\* invariants of the model itself (the predicates live in TreePredicates.tla)
Fuel == Cardinality(E) + 1
HooksReset(t, s) == \A e \in E : (\A i \in 1..Len(s) : s[i] # e) => HookReset(t, e)
\* invariants of the model itself
InvOrder    == InOrderIsOrder(T, order, Fuel) /\ SuccWalkIsOrder(T, order, Fuel) /\ (Variant = "less" => Sorted(order, Lo))
InvLinks    == PredSuccInverse(T, order) /\ ParentMatchesChild(T, order)
InvColour   == ValidColouring(T, Fuel) /\ HeightBound(T, order, Fuel)
InvHooks    == HooksReset(T, order)
InvAgg      == AggregateExact(T, order, Hi, Fuel)
=============================================================================

CONSTANTS
  E = {1,2,3,4,5,6,7}
  Lo <- Keys7
  Hi <- Keys7
  Variant = "less"
INIT MCInit
NEXT MCNext
VIEW MCView
INVARIANTS InvOrder InvLinks InvColour InvHooks 
ACTION_CONSTRAINT Emit
CHECK_DEADLOCK FALSE

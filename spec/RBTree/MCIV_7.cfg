CONSTANTS
  E = {1,2,3,4,5,6,7}
  Lo <- IvLo7
  Hi <- IvHi7
  Variant = "less"
INIT MCInit
NEXT MCNext
VIEW MCView
INVARIANTS InvOrder InvLinks InvColour InvHooks InvAgg QueriesExact
ACTION_CONSTRAINT Emit
CHECK_DEADLOCK FALSE

----------------------------- MODULE RBTreeTrace -----------------------------
(* Property-layer trace specification for C06 (red-black tree, both variants) and  *)
(* C07 (interval tree).  The abstract state is the ordered element sequence; the    *)
(* shape of the real tree is whatever the code built - it is logged after a call     *)
(* and must satisfy the predicates of TreePredicates.tla for the new sequence.       *)
EXTENDS Integers, Sequences, FiniteSets, TLC, TreePredicates, TraceBase

VARIABLES variant, n, lo, hi, order, l, nchk
svars == <<variant, n, lo, hi, order>>
tvars == <<svars, l, nchk>>

Col(c) == IF c = 1 THEN "r" ELSE IF c = 2 THEN "b" ELSE "n"
ShapeOf(ev) == [root |-> ev.root, left |-> ev.left, right |-> ev.right, parent |-> ev.parent,
                pred |-> ev.pred, succ |-> ev.succ,
                color |-> [e \in 1..n |-> Col(ev.color[e])],
                max |-> IF Has(ev, "max") THEN ev.max ELSE [e \in 1..n |-> 0]]

Members(s) == {s[i] : i \in 1..Len(s)}
RECURSIVE InsertPos(_, _, _)
InsertPos(s, k, i) == IF i > Len(s) THEN i ELSE IF lo[s[i]] <= k THEN InsertPos(s, k, i + 1) ELSE i
InsertAt(s, i, e) == SubSeq(s, 1, i - 1) \o <<e>> \o SubSeq(s, i, Len(s))
IndexOf(s, e) == CHOOSE i \in 1..Len(s) : s[i] = e
RemoveFrom(s, e) == LET i == IndexOf(s, e) IN SubSeq(s, 1, i - 1) \o SubSeq(s, i + 1, Len(s))

NewOrder(ev) ==
  CASE ev.op = "ins"  -> InsertAt(order, InsertPos(order, lo[ev.x], 1), ev.x)
    [] ev.op = "insb" -> IF ev.b = 0 THEN Append(order, ev.x) ELSE InsertAt(order, IndexOf(order, ev.b), ev.x)
    [] ev.op = "rem"  -> RemoveFrom(order, ev.x)

RECURSIVE Log2Ceil(_)
Log2Ceil(k) == IF k <= 1 THEN 0 ELSE 1 + Log2Ceil((k + 1) \div 2)
FuelFor(s) == 2 * Log2Ceil(Len(s) + 1) + 3

Legal(ev) ==
  /\ ev.x \in 1..n
  /\ CASE ev.op \in {"ins", "insb"} -> ev.x \notin Members(order) /\ (ev.op = "insb" => (ev.b = 0 \/ ev.b \in Members(order)))
       [] ev.op = "rem" -> ev.x \in Members(order)
       [] OTHER -> FALSE

QueryOK(t, s, q) == ExactlyOnce(q[3], OverlapSet(s, lo, hi, q[1], q[2]))

Accepts(ev) ==
  CASE ev.e = "Op" ->
         /\ GD("C06", "LegalOperation", Legal(ev))
         /\ (ev.chk = 0 \/
             LET s == NewOrder(ev)
                 t == ShapeOf(ev)
                 f == FuelFor(s) IN
             /\ G("C06", "InOrderWalkIsComparatorOrder", InOrderIsOrder(t, s, f))
             /\ G("C06", "FirstIsMinimum", ev.first = (IF s = <<>> THEN 0 ELSE s[1]))
             /\ G("C06", "SuccessorWalkIsComparatorOrder", SuccWalkIsOrder(t, s, f))
             /\ G("C06", "PredecessorSuccessorInverse", PredSuccInverse(t, s))
             /\ G("C06", "ParentLinksMatchChildLinks", ParentMatchesChild(t, s))
             /\ G("C06", "ValidRedBlackColouring", ValidColouring(t, f))
             /\ G("C06", "HeightBound", HeightBound(t, s, f))
             /\ G("C06", "RemovedHookReset", \A e \in 1..n : e \notin Members(s) => HookReset(t, e))
             /\ G("C06", "EqualKeysKeepInsertionOrder", variant # "order" => Sorted(s, lo))
             /\ (variant # "iv" \/
                 (/\ G("C07", "AggregateExact", AggregateExact(t, s, hi, f))
                  /\ G("C07", "OverlapQueryExactOnce", \A i \in 1..Len(ev.q) : QueryOK(t, s, ev.q[i])))))
    [] ev.e = "panic" -> G("C06", "NoPanicInLegalState", FALSE)
    [] ev.e = "crash" -> G("C06", "NoCrash", FALSE)
    [] ev.e = "hang" -> G("C06", "EveryCallReturns", FALSE)
    [] OTHER -> G("C06", "UnmatchableEvent", FALSE)

Apply(ev) == IF ev.e = "Op" THEN order' = NewOrder(ev) /\ UNCHANGED <<variant, n, lo, hi>> ELSE UNCHANGED svars

ResetTo(ev) == variant' = ev.variant /\ n' = ev.n /\ lo' = ev.lo /\ hi' = ev.hi /\ order' = <<>>

TraceInit == variant = "" /\ n = 0 /\ lo = <<>> /\ hi = <<>> /\ order = <<>> /\ l = 1 /\ nchk = 0 /\ InitDiag

TraceNext ==
  \/ /\ l <= NLines
     /\ LET ev == TraceLog[l] IN
        IF ev.e = "Reset" THEN ResetTo(ev) /\ l' = l + 1 /\ nchk' = nchk
        ELSE IF Judged(Accepts(ev)) THEN Apply(ev) /\ l' = l + 1 /\ nchk' = nchk + (IF ev.e = "Op" THEN ev.chk ELSE 0)
        ELSE ReportReject(l) /\ l' = NextResetFrom(l + 1) /\ UNCHANGED <<svars, nchk>>
  \/ /\ l = NLines + 1 /\ ReportDone(nchk) /\ l' = l + 1 /\ UNCHANGED <<svars, nchk>>

\* the abstract sequence never holds an element twice
NoDuplicates == Cardinality(Members(order)) = Len(order)
=============================================================================

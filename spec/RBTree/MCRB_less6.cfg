CONSTANTS
  E = {1,2,3,4,5,6}
  Lo <- Keys6
  Hi <- Keys6
  Variant = "less"
INIT MCInit
NEXT MCNext
VIEW MCView
INVARIANTS InvOrder InvLinks InvColour InvHooks 
ACTION_CONSTRAINT Emit
CHECK_DEADLOCK FALSE

------------------------------- MODULE MCHeap -------------------------------
EXTENDS PairingHeapImpl, Json
Prio6 == <<1, 1, 2, 2, 3, 3>>
Prio7 == <<1, 1, 2, 2, 3, 3, 4>>
Prio8 == <<1, 1, 2, 2, 3, 3, 4, 1>>
VARIABLE hist
MCInit == Init /\ hist = <<>>
MCNext == \/ Pop /\ hist' = Append(hist, [op |-> "pop", e |-> 0])
          \/ \E e \in E : \/ Push(e) /\ hist' = Append(hist, [op |-> "push", e |-> e])
                          \/ Remove(e) /\ hist' = Append(hist, [op |-> "remove", e |-> e])
MCView == vars
Emit == PrintT(<<"H", ToJson(hist')>>)
=============================================================================

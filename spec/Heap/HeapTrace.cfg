INIT TraceInit
NEXT TraceNext
INVARIANT ContentsInRange
CHECK_DEADLOCK FALSE

--------------------------- MODULE HeapPredicates ---------------------------
(* Predicates of property C08 over an arbitrary heap structure                      *)
(* t = [root, child, backlink, sibling], a content set S and priorities prio.        *)
(* less(a, b) == prio[a] < prio[b] is the comparator (top is a maximum).             *)
EXTENDS Naturals, Sequences, FiniteSets

RECURSIVE Walk(_, _, _)      \* pre-order over child/sibling links, bounded by fuel
Walk(t, n, fuel) == IF n = 0 \/ fuel = 0 THEN <<>>
                    ELSE <<n>> \o Walk(t, t.child[n], fuel - 1) \o Walk(t, t.sibling[n], fuel - 1)
ToSet(q) == {q[i] : i \in 1..Len(q)}

EmptyExact(t, S) == (t.root = 0) = (S = {})
TopIsMaximum(t, S, prio) == S # {} => (t.root \in S /\ \A y \in S : ~(prio[t.root] < prio[y]))
ContentsReachableOnce(t, S) == LET w == Walk(t, t.root, Cardinality(S) + 1) IN
                                  ToSet(w) = S /\ Len(w) = Cardinality(S)
RootDetached(t) == t.root # 0 => (t.backlink[t.root] = 0 /\ t.sibling[t.root] = 0)
BacklinksConsistent(t, S) == \A e \in S : e # t.root =>
                                LET p == t.backlink[e] IN p \in S /\ (t.child[p] = e \/ t.sibling[p] = e)
                                                          /\ ~(t.child[p] = e /\ t.sibling[p] = e)
\* parent of e: follow backlinks while we are a sibling
RECURSIVE ParentOf(_, _, _)
ParentOf(t, e, fuel) == IF fuel = 0 \/ t.backlink[e] = 0 THEN 0
                        ELSE IF t.child[t.backlink[e]] = e THEN t.backlink[e]
                        ELSE ParentOf(t, t.backlink[e], fuel - 1)
HeapOrdered(t, S, prio) == \A e \in S : LET p == ParentOf(t, e, Cardinality(S) + 1) IN p # 0 => ~(prio[p] < prio[e])
HookReset(t, e) == t.child[e] = 0 /\ t.backlink[e] = 0 /\ t.sibling[e] = 0
=============================================================================

CONSTANTS
  E = {1,2,3,4,5,6,7}
  Prio <- Prio7
INIT MCInit
NEXT MCNext
VIEW MCView
INVARIANTS InvTop InvContents InvLinks InvHooks
ACTION_CONSTRAINT Emit
CHECK_DEADLOCK FALSE

------------------------------ MODULE HeapTrace ------------------------------
(* Property-layer trace specification for C08 (pairing heap).  Abstract state: the *)
(* set of contained elements.  pop removes the element top() returned just before;  *)
(* the logged hook structure must satisfy the predicates of HeapPredicates.tla.      *)
EXTENDS Integers, Sequences, FiniteSets, TLC, HeapPredicates, TraceBase

VARIABLES n, prio, contents, l, nchk
svars == <<n, prio, contents>>
tvars == <<svars, l, nchk>>

ShapeOf(ev) == [root |-> ev.top, child |-> ev.child, backlink |-> ev.backlink, sibling |-> ev.sibling]

NewContents(ev) == CASE ev.op = "push" -> contents \cup {ev.x}
                     [] ev.op = "pop" -> contents \ {ev.top_before}
                     [] ev.op = "remove" -> contents \ {ev.x}

Legal(ev) == CASE ev.op = "push" -> ev.x \in 1..n /\ ev.x \notin contents
               [] ev.op = "pop" -> contents # {}
               [] ev.op = "remove" -> ev.x \in contents
               [] OTHER -> FALSE

Accepts(ev) ==
  CASE ev.e = "Op" ->
         /\ G("C08", "LegalOperation", Legal(ev))
         /\ LET S == NewContents(ev) IN
            \* these hold for top()/empty() after every call, also when the structure is not logged
            /\ G("C08", "PopRemovesWhatTopReturned", ev.op = "pop" => (ev.top_before \in contents /\ \A y \in contents : ~(prio[ev.top_before] < prio[y])))
            /\ G("C08", "EmptyExact", (ev.empty = 1) = (S = {}))
            /\ G("C08", "TopIsContainedMaximum", S # {} => (ev.top \in S /\ \A y \in S : ~(prio[ev.top] < prio[y])))
            /\ G("C08", "TopNullWhenEmpty", S = {} => ev.top = 0)
            /\ (ev.chk = 0 \/
                LET t == ShapeOf(ev) IN
                /\ G("C08", "ContentsReachableExactlyOnce", ContentsReachableOnce(t, S))
                /\ G("C08", "RootDetached", RootDetached(t))
                /\ G("C08", "BacklinksConsistent", BacklinksConsistent(t, S))
                /\ G("C08", "HeapOrdered", HeapOrdered(t, S, prio))
                /\ G("C08", "RemovedHookReset", \A e \in (1..n) \ S : HookReset(t, e)))
    [] ev.e = "Destroyed" -> TRUE
    [] ev.e = "panic" -> G("C08", "NoPanicInLegalState", FALSE)
    [] ev.e = "crash" -> G("C08", "NoCrash", FALSE)
    [] ev.e = "hang" -> G("C08", "EveryCallReturns", FALSE)
    [] OTHER -> G("C08", "UnmatchableEvent", FALSE)

Apply(ev) == IF ev.e = "Op" THEN contents' = NewContents(ev) /\ UNCHANGED <<n, prio>> ELSE UNCHANGED svars
ResetTo(ev) == n' = ev.n /\ prio' = ev.prio /\ contents' = {}
TraceInit == n = 0 /\ prio = <<>> /\ contents = {} /\ l = 1 /\ nchk = 0 /\ InitDiag
TraceNext ==
  \/ /\ l <= NLines
     /\ LET ev == TraceLog[l] IN
        IF ev.e = "Reset" THEN ResetTo(ev) /\ l' = l + 1 /\ nchk' = nchk
        ELSE IF Accepts(ev) THEN Apply(ev) /\ l' = l + 1 /\ nchk' = nchk + (IF ev.e = "Op" THEN 1 ELSE 0)
        ELSE ReportReject(l) /\ l' = NextResetFrom(l + 1) /\ UNCHANGED <<svars, nchk>>
  \/ /\ l = NLines + 1 /\ ReportDone(nchk) /\ l' = l + 1 /\ UNCHANGED <<svars, nchk>>
ContentsInRange == contents \subseteq 1..n
=============================================================================

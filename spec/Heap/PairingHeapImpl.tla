--------------------------- MODULE PairingHeapImpl ---------------------------
(* Implementation-shaped specification of frigg's intrusive pairing heap           *)
(* (pairing_heap.hpp): _merge, the two passes of _collapse, push, pop, remove        *)
(* through the backlink.  Abstract state: the set of contained elements.             *)
EXTENDS Naturals, Sequences, FiniteSets, TLC, HeapPredicates

CONSTANTS E, Prio

VARIABLES H, contents
vars == <<H, contents>>

EmptyHeap == [root |-> 0, child |-> [e \in E |-> 0], backlink |-> [e \in E |-> 0], sibling |-> [e \in E |-> 0]]
Less(a, b) == Prio[a] < Prio[b]

\* _merge(a, b) -> [h, r]
Merge(h, a, b) ==
  IF Less(a, b)
  THEN LET s == h.child[b]
           h1 == IF s # 0 THEN [h EXCEPT !.backlink[s] = a] ELSE h
       IN [h |-> [h1 EXCEPT !.sibling[a] = s, !.backlink[a] = b, !.child[b] = a], r |-> b]
  ELSE LET s == h.child[a]
           h1 == IF s # 0 THEN [h EXCEPT !.backlink[s] = b] ELSE h
       IN [h |-> [h1 EXCEPT !.sibling[b] = s, !.backlink[b] = a, !.child[a] = b], r |-> a]

\* first pass of _collapse: pair up siblings left to right, chain the pairs through backlink
RECURSIVE Pass1(_, _, _)
Pass1(h, element, paired) ==
  IF element # 0 /\ h.sibling[element] # 0
  THEN LET partner == h.sibling[element]
           next == h.sibling[partner]
           h1 == [h EXCEPT !.backlink[element] = 0, !.sibling[element] = 0, !.backlink[partner] = 0, !.sibling[partner] = 0]
           m == Merge(h1, element, partner)
           h2 == [m.h EXCEPT !.backlink[m.r] = paired]
       IN Pass1(h2, next, m.r)
  ELSE [h |-> h, element |-> element, paired |-> paired]

\* second pass: merge the pairs right to left
RECURSIVE Pass2(_, _, _)
Pass2(h, joined, paired) ==
  IF paired = 0 THEN [h |-> h, r |-> joined]
  ELSE LET pr == h.backlink[paired]
           h1 == [h EXCEPT !.backlink[paired] = 0]
           m == Merge(h1, joined, paired)
       IN Pass2(m.h, m.r, pr)

Collapse(h, head) ==
  LET p == Pass1(h, head, 0) IN
  IF p.element # 0
  THEN Pass2([p.h EXCEPT !.backlink[p.element] = 0], p.element, p.paired)
  ELSE LET pr == p.h.backlink[p.paired] IN
       Pass2([p.h EXCEPT !.backlink[p.paired] = 0], p.paired, pr)

HPush(h, e) == IF h.root # 0 THEN LET m == Merge(h, h.root, e) IN [m.h EXCEPT !.root = m.r]
               ELSE [h EXCEPT !.root = e]

HPop(h) == LET c == h.child[h.root]
               h1 == [h EXCEPT !.child[h.root] = 0] IN
           IF c # 0 THEN LET m == Collapse([h1 EXCEPT !.backlink[c] = 0], c) IN [m.h EXCEPT !.root = m.r]
           ELSE [h1 EXCEPT !.root = 0]

HRemove(h, e) ==
  IF h.root = e THEN HPop(h)
  ELSE LET pr == h.backlink[e]
           s == h.sibling[e]
           c == h.child[e]
           h1 == IF h.child[pr] = e THEN [h EXCEPT !.child[pr] = s] ELSE [h EXCEPT !.sibling[pr] = s]
           h2 == IF s # 0 THEN [h1 EXCEPT !.backlink[s] = pr] ELSE h1
           h3 == IF c # 0
                 THEN LET col == Collapse([h2 EXCEPT !.backlink[c] = 0], c)
                          m == Merge(col.h, col.h.root, col.r)
                      IN [m.h EXCEPT !.root = m.r]
                 ELSE h2
       IN [h3 EXCEPT !.backlink[e] = 0, !.sibling[e] = 0, !.child[e] = 0]

Init == H = EmptyHeap /\ contents = {}
Push(e) == e \notin contents /\ H' = HPush(H, e) /\ contents' = contents \cup {e}
Pop == contents # {} /\ H' = HPop(H) /\ contents' = contents \ {H.root}
Remove(e) == e \in contents /\ H' = HRemove(H, e) /\ contents' = contents \ {e}
Next == Pop \/ \E e \in E : Push(e) \/ Remove(e)
Spec == Init /\ [][Next]_vars

InvTop      == EmptyExact(H, contents) /\ TopIsMaximum(H, contents, Prio)
InvContents == ContentsReachableOnce(H, contents)
InvLinks    == RootDetached(H) /\ BacklinksConsistent(H, contents) /\ HeapOrdered(H, contents, Prio)
InvHooks    == \A e \in E \ contents : HookReset(H, e)
=============================================================================

INIT TraceInit
NEXT TraceNext
INVARIANT HolderSane
CHECK_DEADLOCK FALSE

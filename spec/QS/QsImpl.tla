------------------------------- MODULE QsImpl -------------------------------
(* frigg's quiescent-state domain (qs.hpp): qs_domain / qs_agent / qs_node.        *)
(*                                                                                 *)
(* One action per atomic access and per mutex operation (Granularity = "access"),  *)
(* or - same actions, restricted interleaving - one whole API call at a time        *)
(* (Granularity = "op").  Plain code between two seam points executes with the      *)
(* following seam event.  The happens-before relation is the one induced by the     *)
(* memory orders the code uses (MO, extracted from recorded traces) and by the       *)
(* mutex.                                                                           *)
(*                                                                                 *)
(* Property C11 is expressed with ghosts:                                           *)
(*   waiting[n]  agents that were online (and not inside quiescent_state/offline)   *)
(*               when n was registered and have not since called either             *)
(*   req[n]      marker "everything x did before entering" of each such agent       *)
(*   a callback / a return of quiescent_barrier is correct iff waiting = {} and     *)
(*   req is contained in the happens-before set of the invoking agent.              *)
EXTENDS Naturals, Sequences, FiniteSets, TLC, HB

CONSTANTS Agents,        \* e.g. 1..2
          Nodes,         \* qs_node objects, each registered at most once, e.g. 1..2
          MaxJoins,      \* online() calls per agent
          MaxOps,        \* API calls per agent (quiescent_state / run do not count when FreeQS)
          FreeQS,        \* TRUE: quiescent_state() and run() are not budgeted (liveness configs)
          MaxCounter,    \* state constraint on the period counter (safety configs)
          Granularity,   \* "access" | "op"
          AllowBarrier,  \* FALSE: quiescent_barrier() is not called (smaller graphs for the replay tours)
          MO             \* memory order per access site, e.g. MO["quiescent_state.counter.load.1"] = "acq"

VARIABLES D,             \* domain: [counter, desired, numAgents, toAck, holder]
          ag,            \* per agent record, see InitAgent
          nd,            \* per node: [target, state, reg, waiting, req, ok]
          bar,           \* per agent: ghost of the implicit node of quiescent_barrier
          hb, rel        \* happens-before ghost

vars == <<D, ag, nd, bar, hb, rel>>

Sites == {"await_barrier.counter.load.0",
          "await_barrier.desired.casfail.0",
          "await_barrier.desired.load.0",
          "await_barrier.desired.rmw.0",
          "offline.counter.load.0",
          "offline.counter.store.0",
          "offline.toAck.rmw.0",
          "offline.toAck.store.0",
          "online.counter.load.0",
          "online.counter.store.0",
          "online.toAck.load.0",
          "online.toAck.store.0",
          "quiescent_barrier.counter.load.0",
          "quiescent_barrier.counter.load.1",
          "quiescent_barrier.desired.casfail.0",
          "quiescent_barrier.desired.load.0",
          "quiescent_barrier.desired.rmw.0",
          "quiescent_state.counter.load.0",
          "quiescent_state.counter.load.1",
          "quiescent_state.counter.store.0",
          "quiescent_state.counter.store.1",
          "quiescent_state.desired.load.0",
          "quiescent_state.desired.load.1",
          "quiescent_state.toAck.rmw.0",
          "quiescent_state.toAck.store.0",
          "quiescent_state.toAck.store.1",
          "run.counter.load.0"}

InitAgent == [pc |-> "idle", acked |-> 0, deferred |-> FALSE, ctr |-> 0, old |-> 0, d |-> 0, c |-> 0,
              target |-> 0, node |-> 0, inBarrier |-> FALSE, btarget |-> 0, pending |-> <<>>,
              ops |-> 0, joins |-> 0, qsn |-> 0, panic |-> FALSE]

Init ==
  /\ D = [counter |-> 1, desired |-> 0, numAgents |-> 0, toAck |-> 0, holder |-> 0]
  /\ ag = [a \in Agents |-> InitAgent]
  /\ nd = [n \in Nodes |-> [target |-> 0, state |-> "free", reg |-> 0, waiting |-> {}, req |-> {}, ok |-> TRUE]]
  /\ bar = [a \in Agents |-> [active |-> FALSE, waiting |-> {}, req |-> {}, ok |-> TRUE]]
  /\ hb = [a \in Agents |-> {}]
  /\ rel = [x \in {"counter", "desired", "toAck", "mutex"} |-> {}]

-----------------------------------------------------------------------------
\* helpers

Online(a) == ag[a].acked # 0
\* a is "inside quiescent_state() or offline()": quiescent for every node registered now
Quiescent(a) == ag[a].pc \in {"qd1", "qd2", "qd3", "qd4", "qd5", "qd6", "q1", "q2", "q3", "q4", "q5", "q6", "q7",
                              "off2", "off3", "off4", "off5", "off6"}
\* agents a new registration has to wait for
MustWait == {x \in Agents : Online(x) /\ ~Quiescent(x) /\ ag[x].pc \notin {"on2", "on3", "on4", "on5", "on6"}}

Budget(a, free) == (free /\ FreeQS) \/ ag[a].ops < MaxOps
Spend(a, free) == IF free /\ FreeQS THEN ag[a].ops ELSE ag[a].ops + 1

Marker(a) == <<a, ag[a].qsn + 1>>

\* agent a enters quiescent_state() or offline(): it makes the marker "everything I did before"
\* and leaves the waiting set of every pending node; the marker becomes required for that node.
Quiesce(a) ==
  /\ nd' = [n \in Nodes |->
              IF nd[n].state = "pending" /\ a \in nd[n].waiting
              THEN [nd[n] EXCEPT !.waiting = @ \ {a}, !.req = @ \cup {Marker(a)}] ELSE nd[n]]
  /\ bar' = [b \in Agents |->
              IF bar[b].active /\ a \in bar[b].waiting
              THEN [bar[b] EXCEPT !.waiting = @ \ {a}, !.req = @ \cup {Marker(a)}] ELSE bar[b]]

Needed(a) == (\E n \in Nodes : nd[n].state = "pending" /\ a \in nd[n].waiting)
             \/ (\E b \in Agents : bar[b].active /\ a \in bar[b].waiting)

\* hb of a after creating its marker (only if somebody needs it - keeps the ghost small)
WithMarker(a) == IF Needed(a) THEN hb[a] \cup {Marker(a)} ELSE hb[a]

Load(a, x, site)  == hb' = [hb EXCEPT ![a] = AfterAcquire(@, rel[x], MO[site])] /\ rel' = rel
Store(a, x, site) == rel' = [rel EXCEPT ![x] = AfterStore(hb[a], MO[site])] /\ hb' = hb
Rmw(a, x, site)   == /\ hb' = [hb EXCEPT ![a] = AfterAcquire(@, rel[x], MO[site])]
                     /\ rel' = [rel EXCEPT ![x] = AfterRmw(hb[a], @, MO[site])]
LockHB(a, h)      == hb' = [hb EXCEPT ![a] = h \cup rel["mutex"]] /\ rel' = rel
UnlockHB(a)       == rel' = [rel EXCEPT !["mutex"] = hb[a]] /\ hb' = hb

\* dead locals are cleared when a call returns (keeps the state space free of stale values)
Norm(f) == IF f.pc = "idle"
           THEN [f EXCEPT !.ctr = 0, !.old = 0, !.d = 0, !.c = 0, !.target = 0, !.node = 0, !.btarget = 0, !.inBarrier = FALSE]
           ELSE IF f.pc = "b4" THEN [f EXCEPT !.ctr = 0, !.old = 0, !.d = 0, !.c = 0]
           ELSE f
Set(a, fields) == ag' = [ag EXCEPT ![a] = Norm(fields)]
RetPc(a) == IF ag[a].inBarrier THEN "b4" ELSE "idle"

-----------------------------------------------------------------------------
\* online()
OnLock(a) ==
  /\ ag[a].pc = "idle" /\ ~Online(a) /\ ag[a].joins < MaxJoins /\ Budget(a, FALSE)
  /\ D.holder = 0
  /\ D' = [D EXCEPT !.holder = a]
  /\ Set(a, [ag[a] EXCEPT !.pc = "on2", !.ops = Spend(a, FALSE), !.joins = @ + 1])
  /\ LockHB(a, hb[a])
  /\ UNCHANGED <<nd, bar>>

On2(a) ==
  /\ ag[a].pc = "on2"
  /\ D' = [D EXCEPT !.numAgents = @ + 1]
  /\ Set(a, [ag[a] EXCEPT !.ctr = D.counter, !.pc = IF D.numAgents + 1 = 1 THEN "on3" ELSE "on6"])
  /\ Load(a, "counter", "online.counter.load.0")
  /\ UNCHANGED <<nd, bar>>

On3(a) ==
  /\ ag[a].pc = "on3"
  /\ Set(a, [ag[a] EXCEPT !.pc = "on4", !.panic = @ \/ D.toAck # 0])
  /\ Load(a, "toAck", "online.toAck.load.0")
  /\ UNCHANGED <<D, nd, bar>>

On4(a) ==
  /\ ag[a].pc = "on4"
  /\ D' = [D EXCEPT !.toAck = 1]
  /\ Set(a, [ag[a] EXCEPT !.pc = "on5"])
  /\ Store(a, "toAck", "online.toAck.store.0")
  /\ UNCHANGED <<nd, bar>>

On5(a) ==
  /\ ag[a].pc = "on5"
  /\ D' = [D EXCEPT !.counter = ag[a].ctr + 1]
  /\ Set(a, [ag[a] EXCEPT !.pc = "on6"])
  /\ Store(a, "counter", "online.counter.store.0")
  /\ UNCHANGED <<nd, bar>>

On6(a) ==
  /\ ag[a].pc = "on6"
  /\ D' = [D EXCEPT !.holder = 0]
  /\ Set(a, [ag[a] EXCEPT !.pc = "idle", !.acked = ag[a].ctr])
  /\ UnlockHB(a)
  /\ UNCHANGED <<nd, bar>>

-----------------------------------------------------------------------------
\* offline()   (documented precondition: not while a grace period is deferred on this agent)
OffLock(a) ==
  /\ ag[a].pc = "idle" /\ Online(a) /\ ~ag[a].deferred /\ Budget(a, FALSE)
  /\ D.holder = 0
  /\ D' = [D EXCEPT !.holder = a]
  /\ Set(a, [ag[a] EXCEPT !.pc = "off2", !.ops = Spend(a, FALSE), !.qsn = IF Needed(a) THEN @ + 1 ELSE @])
  /\ Quiesce(a)
  /\ LockHB(a, WithMarker(a))

Off2(a) ==
  /\ ag[a].pc = "off2"
  /\ D' = [D EXCEPT !.numAgents = @ - 1]
  /\ Set(a, [ag[a] EXCEPT !.ctr = D.counter, !.pc = IF ag[a].acked # D.counter THEN "off3" ELSE "off6",
                          !.panic = @ \/ (ag[a].acked # D.counter /\ ag[a].acked + 1 # D.counter)])
  /\ Load(a, "counter", "offline.counter.load.0")
  /\ UNCHANGED <<nd, bar>>

Off3(a) ==
  /\ ag[a].pc = "off3"
  /\ D.toAck > 0   \* an underflow of the unsigned counter would be a defect; see NoUnderflow
  /\ D' = [D EXCEPT !.toAck = @ - 1]
  /\ Set(a, [ag[a] EXCEPT !.old = D.toAck, !.pc = IF D.toAck = 1 THEN "off4" ELSE "off6"])
  /\ Rmw(a, "toAck", "offline.toAck.rmw.0")
  /\ UNCHANGED <<nd, bar>>

Off4(a) ==
  /\ ag[a].pc = "off4"
  /\ D' = [D EXCEPT !.toAck = D.numAgents]
  /\ Set(a, [ag[a] EXCEPT !.pc = "off5"])
  /\ Store(a, "toAck", "offline.toAck.store.0")
  /\ UNCHANGED <<nd, bar>>

Off5(a) ==
  /\ ag[a].pc = "off5"
  /\ D' = [D EXCEPT !.counter = ag[a].ctr + 1]
  /\ Set(a, [ag[a] EXCEPT !.pc = "off6"])
  /\ Store(a, "counter", "offline.counter.store.0")
  /\ UNCHANGED <<nd, bar>>

Off6(a) ==
  /\ ag[a].pc = "off6"
  /\ D' = [D EXCEPT !.holder = 0]
  /\ Set(a, [ag[a] EXCEPT !.pc = "idle", !.acked = 0])
  /\ UnlockHB(a)
  /\ UNCHANGED <<nd, bar>>

-----------------------------------------------------------------------------
\* quiescent_state(): first access, entered from idle (API call) or from quiescent_barrier's loop
QsEnter(a, fromBarrier) ==
  /\ Quiesce(a)
  /\ IF ag[a].deferred
     THEN /\ Set(a, [ag[a] EXCEPT !.pc = "qd2", !.inBarrier = fromBarrier,
                                  !.ops = IF fromBarrier THEN @ ELSE Spend(a, TRUE),
                                  !.qsn = IF Needed(a) THEN @ + 1 ELSE @,
                                  !.panic = @ \/ ag[a].acked # D.counter])
          /\ hb' = [hb EXCEPT ![a] = AfterAcquire(WithMarker(a), rel["counter"], MO["quiescent_state.counter.load.0"])]
          /\ rel' = rel /\ D' = D
     ELSE /\ Set(a, [ag[a] EXCEPT !.pc = IF ag[a].acked # D.counter THEN "q2" ELSE (IF fromBarrier THEN "b4" ELSE "idle"),
                                  !.inBarrier = fromBarrier,
                                  !.ctr = D.counter,
                                  !.ops = IF fromBarrier THEN @ ELSE Spend(a, TRUE),
                                  !.qsn = IF Needed(a) THEN @ + 1 ELSE @,
                                  !.panic = @ \/ (ag[a].acked # D.counter /\ ag[a].acked + 1 # D.counter)])
          /\ hb' = [hb EXCEPT ![a] = AfterAcquire(WithMarker(a), rel["counter"], MO["quiescent_state.counter.load.1"])]
          /\ rel' = rel /\ D' = D

QsCall(a) == ag[a].pc = "idle" /\ Online(a) /\ Budget(a, TRUE) /\ QsEnter(a, FALSE)

Qd2(a) ==
  /\ ag[a].pc = "qd2"
  /\ Set(a, [ag[a] EXCEPT !.d = D.desired, !.pc = IF D.desired > ag[a].acked THEN "qd3" ELSE RetPc(a)])
  /\ Load(a, "desired", "quiescent_state.desired.load.0")
  /\ UNCHANGED <<D, nd, bar>>

Qd3(a) ==
  /\ ag[a].pc = "qd3" /\ D.holder = 0
  /\ D' = [D EXCEPT !.holder = a]
  /\ Set(a, [ag[a] EXCEPT !.pc = "qd4"])
  /\ LockHB(a, hb[a])
  /\ UNCHANGED <<nd, bar>>

Qd4(a) ==
  /\ ag[a].pc = "qd4"
  /\ D' = [D EXCEPT !.toAck = D.numAgents]
  /\ Set(a, [ag[a] EXCEPT !.pc = "qd5"])
  /\ Store(a, "toAck", "quiescent_state.toAck.store.0")
  /\ UNCHANGED <<nd, bar>>

Qd5(a) ==
  /\ ag[a].pc = "qd5"
  /\ D' = [D EXCEPT !.counter = ag[a].acked + 1]
  /\ Set(a, [ag[a] EXCEPT !.pc = "qd6", !.deferred = FALSE])
  /\ Store(a, "counter", "quiescent_state.counter.store.0")
  /\ UNCHANGED <<nd, bar>>

Qd6(a) ==
  /\ ag[a].pc = "qd6"
  /\ D' = [D EXCEPT !.holder = 0]
  /\ Set(a, [ag[a] EXCEPT !.pc = RetPc(a)])
  /\ UnlockHB(a)
  /\ UNCHANGED <<nd, bar>>

Q2(a) ==
  /\ ag[a].pc = "q2"
  /\ D.toAck > 0
  /\ D' = [D EXCEPT !.toAck = @ - 1]
  /\ Set(a, [ag[a] EXCEPT !.old = D.toAck,
                          !.pc = IF D.toAck = 1 THEN "q3" ELSE RetPc(a),
                          !.acked = IF D.toAck = 1 THEN @ ELSE @ + 1])
  /\ Rmw(a, "toAck", "quiescent_state.toAck.rmw.0")
  /\ UNCHANGED <<nd, bar>>

Q3(a) ==
  /\ ag[a].pc = "q3"
  /\ IF D.desired > ag[a].ctr
     THEN Set(a, [ag[a] EXCEPT !.d = D.desired, !.pc = "q4"])
     ELSE Set(a, [ag[a] EXCEPT !.d = D.desired, !.pc = RetPc(a), !.deferred = TRUE, !.acked = @ + 1])
  /\ Load(a, "desired", "quiescent_state.desired.load.1")
  /\ UNCHANGED <<D, nd, bar>>

Q4(a) ==
  /\ ag[a].pc = "q4" /\ D.holder = 0
  /\ D' = [D EXCEPT !.holder = a]
  /\ Set(a, [ag[a] EXCEPT !.pc = "q5"])
  /\ LockHB(a, hb[a])
  /\ UNCHANGED <<nd, bar>>

Q5(a) ==
  /\ ag[a].pc = "q5"
  /\ D' = [D EXCEPT !.toAck = D.numAgents]
  /\ Set(a, [ag[a] EXCEPT !.pc = "q6"])
  /\ Store(a, "toAck", "quiescent_state.toAck.store.1")
  /\ UNCHANGED <<nd, bar>>

Q6(a) ==
  /\ ag[a].pc = "q6"
  /\ D' = [D EXCEPT !.counter = ag[a].ctr + 1]
  /\ Set(a, [ag[a] EXCEPT !.pc = "q7"])
  /\ Store(a, "counter", "quiescent_state.counter.store.1")
  /\ UNCHANGED <<nd, bar>>

Q7(a) ==
  /\ ag[a].pc = "q7"
  /\ D' = [D EXCEPT !.holder = 0]
  /\ Set(a, [ag[a] EXCEPT !.pc = RetPc(a), !.acked = @ + 1])
  /\ UnlockHB(a)
  /\ UNCHANGED <<nd, bar>>

-----------------------------------------------------------------------------
\* await_barrier(node)
A1(a, n) ==
  /\ ag[a].pc = "idle" /\ Online(a) /\ Budget(a, FALSE) /\ nd[n].state = "free"
  /\ Set(a, [ag[a] EXCEPT !.pc = "a2", !.target = D.counter + 2, !.node = n, !.ops = Spend(a, FALSE)])
  /\ nd' = [nd EXCEPT ![n] = [@ EXCEPT !.state = "pending", !.reg = a, !.waiting = MustWait, !.req = {}]]
  /\ Load(a, "counter", "await_barrier.counter.load.0")
  /\ UNCHANGED <<D, bar>>

\* end of await_barrier (plain code, executes with the last seam event)
Registered(a, rec) == [rec EXCEPT !.pc = "idle", !.pending = Append(@, ag[a].node)]

A2(a) ==
  /\ ag[a].pc = "a2"
  /\ IF D.desired < ag[a].target
     THEN /\ Set(a, [ag[a] EXCEPT !.c = D.desired, !.pc = "a3"]) /\ nd' = nd
     ELSE /\ Set(a, Registered(a, [ag[a] EXCEPT !.c = D.desired]))
          /\ nd' = [nd EXCEPT ![ag[a].node].target = ag[a].target]
  /\ Load(a, "desired", "await_barrier.desired.load.0")
  /\ UNCHANGED <<D, bar>>

A3(a) ==
  /\ ag[a].pc = "a3"
  /\ IF D.desired = ag[a].c
     THEN /\ D' = [D EXCEPT !.desired = ag[a].target]
          /\ Set(a, Registered(a, ag[a]))
          /\ nd' = [nd EXCEPT ![ag[a].node].target = ag[a].target]
          /\ Rmw(a, "desired", "await_barrier.desired.rmw.0")
     ELSE /\ D' = D
          /\ IF D.desired < ag[a].target
             THEN Set(a, [ag[a] EXCEPT !.c = D.desired]) /\ nd' = nd
             ELSE /\ Set(a, Registered(a, [ag[a] EXCEPT !.c = D.desired]))
                  /\ nd' = [nd EXCEPT ![ag[a].node].target = ag[a].target]
          /\ Load(a, "desired", "await_barrier.desired.casfail.0")
  /\ UNCHANGED bar

-----------------------------------------------------------------------------
\* run()
Eligible(a, ctr) == ag[a].pending # <<>> /\ ctr >= nd[Head(ag[a].pending)].target

R1(a) ==
  /\ ag[a].pc = "idle" /\ Budget(a, TRUE)
  /\ ag[a].joins > 0      \* the agent object exists only after its constructor went online
  /\ Set(a, [ag[a] EXCEPT !.ctr = D.counter, !.ops = Spend(a, TRUE),
                          !.pc = IF Eligible(a, D.counter) THEN "r2" ELSE "idle"])
  /\ Load(a, "counter", "run.counter.load.0")
  /\ UNCHANGED <<D, nd, bar>>

\* the callback of the front node is invoked; then the node is unlinked
Callback(a) ==
  /\ ag[a].pc = "r2"
  /\ LET n == Head(ag[a].pending)
         rest == Tail(ag[a].pending) IN
     /\ nd' = [nd EXCEPT ![n] = [@ EXCEPT !.state = "fired", !.target = 0,
                                          !.ok = (nd[n].waiting = {} /\ nd[n].req \subseteq hb[a] /\ nd[n].reg = a)]]
     /\ Set(a, [ag[a] EXCEPT !.pending = rest,
                             !.pc = IF rest # <<>> /\ ag[a].ctr >= nd[Head(rest)].target THEN "r2" ELSE "idle"])
  /\ UNCHANGED <<D, bar>>
  /\ LET live == UNION ({nd[m].req : m \in {k \in Nodes : nd[k].state = "pending" /\ k # Head(ag[a].pending)}}
                       \cup {bar[b].req : b \in {k \in Agents : bar[k].active}}) IN
     \* markers nobody will ask for any more are forgotten (ghost garbage collection)
     /\ hb' = [x \in Agents |-> hb[x] \cap live]
     /\ rel' = [x \in DOMAIN rel |-> rel[x] \cap live]

-----------------------------------------------------------------------------
\* quiescent_barrier()
B1(a) ==
  /\ AllowBarrier
  /\ ag[a].pc = "idle" /\ Online(a) /\ Budget(a, FALSE)
  /\ Set(a, [ag[a] EXCEPT !.pc = "b2", !.btarget = D.counter + 2, !.ops = Spend(a, FALSE)])
  /\ bar' = [bar EXCEPT ![a] = [active |-> TRUE, waiting |-> MustWait, req |-> {}, ok |-> TRUE]]
  /\ Load(a, "counter", "quiescent_barrier.counter.load.0")
  /\ UNCHANGED <<D, nd>>

B2(a) ==
  /\ ag[a].pc = "b2"
  /\ Set(a, [ag[a] EXCEPT !.c = D.desired, !.pc = IF D.desired < ag[a].btarget THEN "b3" ELSE "b4"])
  /\ Load(a, "desired", "quiescent_barrier.desired.load.0")
  /\ UNCHANGED <<D, nd, bar>>

B3(a) ==
  /\ ag[a].pc = "b3"
  /\ IF D.desired = ag[a].c
     THEN /\ D' = [D EXCEPT !.desired = ag[a].btarget]
          /\ Set(a, [ag[a] EXCEPT !.pc = "b4"])
          /\ Rmw(a, "desired", "quiescent_barrier.desired.rmw.0")
     ELSE /\ D' = D
          /\ Set(a, [ag[a] EXCEPT !.c = D.desired, !.pc = IF D.desired < ag[a].btarget THEN "b3" ELSE "b4"])
          /\ Load(a, "desired", "quiescent_barrier.desired.casfail.0")
  /\ UNCHANGED <<nd, bar>>

\* loop test: returns, or calls quiescent_state() whose first access follows in the next step
B4(a) ==
  /\ ag[a].pc = "b4"
  /\ LET h == AfterAcquire(hb[a], rel["counter"], MO["quiescent_barrier.counter.load.1"]) IN
     IF D.counter < ag[a].btarget
     THEN /\ Set(a, [ag[a] EXCEPT !.pc = "bq"])
          /\ bar' = bar
          /\ hb' = [hb EXCEPT ![a] = h]
     ELSE /\ Set(a, [ag[a] EXCEPT !.pc = "idle", !.inBarrier = FALSE])
          /\ bar' = [bar EXCEPT ![a] = [@ EXCEPT !.active = FALSE,
                                                 !.ok = (bar[a].waiting = {} /\ bar[a].req \subseteq h)]]
          /\ hb' = [hb EXCEPT ![a] = h]
  /\ rel' = rel
  /\ UNCHANGED <<D, nd>>

BQ(a) == ag[a].pc = "bq" /\ QsEnter(a, TRUE)

-----------------------------------------------------------------------------
Continue(a) ==
  \/ On2(a) \/ On3(a) \/ On4(a) \/ On5(a) \/ On6(a)
  \/ Off2(a) \/ Off3(a) \/ Off4(a) \/ Off5(a) \/ Off6(a)
  \/ Qd2(a) \/ Qd3(a) \/ Qd4(a) \/ Qd5(a) \/ Qd6(a)
  \/ Q2(a) \/ Q3(a) \/ Q4(a) \/ Q5(a) \/ Q6(a) \/ Q7(a)
  \/ A2(a) \/ A3(a) \/ Callback(a)
  \/ B2(a) \/ B3(a) \/ B4(a) \/ BQ(a)

Start(a) == OnLock(a) \/ OffLock(a) \/ QsCall(a) \/ (\E n \in Nodes : A1(a, n)) \/ R1(a) \/ B1(a)

MidOp(a) == ag[a].pc # "idle"
\* whole-operation granularity: an agent may move only if no other agent is inside a call
\* (except that quiescent_barrier must let others run between its quiescent states)
Allowed(a) == Granularity = "access" \/ \A b \in Agents \ {a} : ~MidOp(b) \/ ag[b].pc = "b4"

Step(a) == Allowed(a) /\ (Start(a) \/ Continue(a))
Next == \E a \in Agents : Step(a)

Spec == Init /\ [][Next]_vars

\* liveness: online agents keep reporting quiescent states, registrants keep calling run(),
\* a started call keeps going, the mutex is fair
FairSpec == Spec /\ \A a \in Agents : /\ SF_vars(Allowed(a) /\ QsCall(a))
                                      /\ SF_vars(Allowed(a) /\ R1(a))
                                      /\ SF_vars(Allowed(a) /\ Continue(a))

-----------------------------------------------------------------------------
\* properties

TypeOK == /\ D.counter \in Nat /\ D.desired \in Nat /\ D.numAgents \in Nat /\ D.toAck \in Nat
          /\ D.holder \in Agents \cup {0}

\* C11 safety: a callback runs only after a full grace period, only in the registrant's run(),
\* and after everything the other agents did before their quiescent state
CallbackAfterGracePeriod == \A n \in Nodes : nd[n].ok
BarrierAfterGracePeriod  == \A a \in Agents : bar[a].ok
\* at most once: a fired node is never pending again in this model (each node registered once) and
\* is on no agent's list
AtMostOnce == \A n \in Nodes : nd[n].state = "fired" => \A a \in Agents : \A i \in 1..Len(ag[a].pending) : ag[a].pending[i] # n
\* none of the library's own assertions can fail
NoPanic == \A a \in Agents : ~ag[a].panic
\* the ack counter never underflows: an ack is pending only if someone still has to ack
NoUnderflow == \A a \in Agents : ag[a].pc \in {"q2", "off3"} => D.toAck > 0
\* no agents => nobody to wait for
EmptyDomain == (D.numAgents = 0 /\ D.holder = 0) => D.toAck = 0
MutexSane == D.holder # 0 => ag[D.holder].pc \in {"on2", "on3", "on4", "on5", "on6", "off2", "off3", "off4", "off5", "off6",
                                                  "qd4", "qd5", "qd6", "q5", "q6", "q7"}

CounterBound == D.counter <= MaxCounter

\* C11 liveness
EventuallyFired == \A n \in Nodes : (nd[n].state = "pending") ~> (nd[n].state = "fired")
BarrierReturns  == \A a \in Agents : (ag[a].pc = "b2") ~> (ag[a].pc = "idle")
=============================================================================

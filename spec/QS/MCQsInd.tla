------------------------------- MODULE MCQsInd -------------------------------
(* TLC wrapper of spec/Apalache/QsInd.tla: explores the whole-call protocol up to a    *)
(* bounded period counter, checks the inductive invariant on every reachable state     *)
(* (it must over-approximate them) and emits one call history per transition for       *)
(* replay on the real qs_domain (harness/qs_whole.cpp).                                *)
EXTENDS QsInd, Sequences, TLC, Json
CONSTANT MaxCtr
VARIABLE hist
MCInit == Init /\ hist = <<>>
Rec(op, a, n) == [op |-> op, a |-> a, n |-> n]
\* the harness runs run() as a whole: fire every reached node of the agent (Fire steps) - here one call record per step,
\* consecutive "run" records of one agent are merged by the driver
MCNext == \E a \in Agents :
            \/ GoOnline(a) /\ hist' = Append(hist, Rec("online", a, 0))
            \/ (GoOffline(a) /\ \A n \in Nodes : ~(target[n] # 0 /\ owner[n] = a)) /\ hist' = Append(hist, Rec("offline", a, 0))
            \/ Quiesce(a) /\ hist' = Append(hist, Rec("qs", a, 0))
            \/ \E n \in Nodes : \/ Await(a, n) /\ hist' = Append(hist, Rec("await", a, n))
                                \/ Fire(a, n) /\ hist' = Append(hist, Rec("run", a, n))
Bound == ctr <= MaxCtr
MCView == <<ctr, desired, num, toAck, acked, deferred, target, owner, owed, early>>
Emit == PrintT(<<"H", ToJson(hist')>>)
=============================================================================

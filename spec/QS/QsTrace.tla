------------------------------- MODULE QsTrace -------------------------------
(* Property-layer trace specification for the quiescent-state domain (C11).        *)
(*                                                                                 *)
(* It knows nothing about counters: it sees the API calls and returns of every     *)
(* agent, the callbacks, the mutex operations and every atomic access with the     *)
(* memory order the code passed, and maintains                                     *)
(*   - who is online / quiescent (from the CALL event of quiescent_state(),         *)
(*     offline() or quiescent_barrier() until its return),                          *)
(*   - for every registered node the agents still to be waited for and the markers  *)
(*     "everything agent x did before entering its quiescent state",                *)
(*   - the happens-before ghost of HB.tla.                                          *)
(* Clauses: OnlyOnce, ByRegistrantInRun, GracePeriodComplete, HappensBefore,        *)
(* BarrierGracePeriod, BarrierHappensBefore, MutexBalanced, NoLeakedLock,           *)
(* NoStall / NoDeadlock / NoPanic / NoTouchAfterCallback (events with no action).   *)
EXTENDS Integers, Sequences, FiniteSets, TLC, HB, TraceBase

VARIABLES nagents,
          online,        \* online[a]: online() has returned and offline() has not been called since
          inq,           \* inq[a]: inside quiescent_state(), offline() or quiescent_barrier()
          running,       \* running[a]: inside run()
          qsn,           \* qsn[a]: number of markers made by a
          nst,           \* nst[n] = [state, reg, waiting, req]
          bar,           \* bar[a] = [active, waiting, req]
          holder,        \* mutex holder (agent) or 0
          hb, rel,
          l, nchk

svars == <<nagents, online, inq, running, qsn, nst, bar, holder, hb, rel>>
tvars == <<svars, l, nchk>>

Ags == 1..nagents
RelOf(v) == IF v \in DOMAIN rel THEN rel[v] ELSE {}
FreeNode == [state |-> "free", reg |-> 0, waiting |-> {}, req |-> {}]
NodeOf(n) == IF n \in DOMAIN nst THEN nst[n] ELSE FreeNode

Marker(a) == <<a, qsn[a] + 1>>
Needed(a) == (\E n \in DOMAIN nst : nst[n].state = "pending" /\ a \in nst[n].waiting)
             \/ (\E b \in Ags : bar[b].active /\ a \in bar[b].waiting)
MustWait == {x \in Ags : online[x] /\ ~inq[x]}

\* effect of agent a entering a quiescent state (call event)
Quiesce(a) ==
  /\ nst' = [n \in DOMAIN nst |->
               IF nst[n].state = "pending" /\ a \in nst[n].waiting
               THEN [nst[n] EXCEPT !.waiting = @ \ {a}, !.req = @ \cup {Marker(a)}] ELSE nst[n]]
  /\ bar' = [b \in Ags |->
               IF bar[b].active /\ a \in bar[b].waiting
               THEN [bar[b] EXCEPT !.waiting = @ \ {a}, !.req = @ \cup {Marker(a)}] ELSE bar[b]]
  /\ hb' = IF Needed(a) THEN [hb EXCEPT ![a] = @ \cup {Marker(a)}] ELSE hb
  /\ qsn' = IF Needed(a) THEN [qsn EXCEPT ![a] = @ + 1] ELSE qsn

AgentOf(ev) == IF Has(ev, "a") THEN ev.a ELSE ev.t + 1

Range(f) == {f[i] : i \in DOMAIN f}

Accepts(ev) ==
  CASE ev.e = "OnlineCall"  -> G("C11", "OnlineWhileOffline", ~online[ev.a] /\ ~inq[ev.a])
    [] ev.e = "OnlineRet"   -> TRUE
    [] ev.e = "OfflineCall" -> G("C11", "OfflineWhileOnline", online[ev.a])
    [] ev.e = "OfflineRet"  -> TRUE
    [] ev.e = "QsCall"      -> G("C11", "QsWhileOnline", online[ev.a])
    [] ev.e = "QsRet"       -> TRUE
    [] ev.e = "AwaitCall"   -> G("C11", "NodeFree", NodeOf(ev.n).state = "free")
    [] ev.e = "AwaitRet"    -> TRUE
    [] ev.e = "RunCall"     -> TRUE
    \* run() takes a node out of the queue only to invoke its callback: a node this agent registered whose callback
    \* has not been seen must still be queued when run() returns
    [] ev.e = "RunRet"      -> G("C11", "RunInvokesTheCallbackOfEveryNodeItDequeues",
                                  Has(ev, "pend") => \A n \in DOMAIN nst : (nst[n].state = "pending" /\ nst[n].reg = ev.a) => n \in Range(ev.pend))
    [] ev.e = "Callback"    ->
         /\ G("C11", "OnlyOnce", NodeOf(ev.n).state = "pending")
         /\ G("C11", "ByRegistrantInRun", NodeOf(ev.n).reg = ev.a /\ running[ev.a])
         /\ G("C11", "GracePeriodComplete", NodeOf(ev.n).waiting = {})
         /\ G("C11", "HappensBefore", NodeOf(ev.n).req \subseteq hb[ev.a])
    [] ev.e = "BarrierCall" -> G("C11", "BarrierWhileOnline", online[ev.a])
    [] ev.e = "BarrierRet"  ->
         /\ G("C11", "BarrierGracePeriod", bar[ev.a].waiting = {})
         /\ G("C11", "BarrierHappensBefore", bar[ev.a].req \subseteq hb[ev.a])
    [] ev.e = "Lock"        -> G("C11", "MutexExclusive", holder = 0)
    [] ev.e = "Unlock"      -> G("C11", "MutexBalanced", holder = ev.t + 1 /\ ev.held = 1)
    [] ev.e = "A"           -> G("C11", "KnownOrder", ev.mo \in Orders)
    [] ev.e = "AgentDone"   -> TRUE
    [] ev.e = "SkippedIllegalCall" -> TRUE   \* the driver refused a call whose precondition did not hold
    [] ev.e = "End"         -> G("C11", "NoLeakedLock", ev.complete = 1 => (holder = 0 /\ ev.holder = -1))
    \* the harness' fair drain: eight complete rounds (every online agent a quiescent state, every online owner a run())
    \* after the last registration and a callback of an online owner still has not run
    [] ev.e = "Starved"     -> G("C11", "EveryCallbackRunsUnderFairQuiescing", FALSE)
    [] ev.e = "stall"       -> G("C11", "NoStall_EveryCallReturns", FALSE)
    [] ev.e = "deadlock"    -> G("C11", "NoDeadlock_EveryCallReturns", FALSE)
    [] ev.e = "panic"       -> G("C11", "NoPanicInLegalState", FALSE)
    [] ev.e = "crash"       -> G("C11", "NoTouchAfterCallback_NoCrash", FALSE)
    [] ev.e = "hang"        -> G("C11", "EveryCallReturns", FALSE)
    [] OTHER                -> G("C11", "UnmatchableEvent", FALSE)

U(xs) == UNCHANGED xs

Apply(ev) ==
  CASE ev.e = "OnlineRet" ->
         /\ online' = [online EXCEPT ![ev.a] = TRUE]
         /\ U(<<nagents, inq, running, qsn, nst, bar, holder, hb, rel>>)
    [] ev.e = "OfflineCall" ->
         /\ Quiesce(ev.a)
         /\ online' = [online EXCEPT ![ev.a] = FALSE]
         /\ inq' = [inq EXCEPT ![ev.a] = TRUE]
         /\ U(<<nagents, running, holder, rel>>)
    [] ev.e \in {"OfflineRet", "QsRet"} ->
         /\ inq' = [inq EXCEPT ![ev.a] = FALSE]
         /\ U(<<nagents, online, running, qsn, nst, bar, holder, hb, rel>>)
    [] ev.e = "QsCall" ->
         /\ Quiesce(ev.a)
         /\ inq' = [inq EXCEPT ![ev.a] = TRUE]
         /\ U(<<nagents, online, running, holder, rel>>)
    [] ev.e = "AwaitCall" ->
         /\ nst' = (ev.n :> [state |-> "pending", reg |-> ev.a, waiting |-> MustWait, req |-> {}]) @@ nst
         /\ U(<<nagents, online, inq, running, qsn, bar, holder, hb, rel>>)
    [] ev.e = "RunCall" ->
         /\ running' = [running EXCEPT ![ev.a] = TRUE]
         /\ U(<<nagents, online, inq, qsn, nst, bar, holder, hb, rel>>)
    [] ev.e = "RunRet" ->
         /\ running' = [running EXCEPT ![ev.a] = FALSE]
         /\ U(<<nagents, online, inq, qsn, nst, bar, holder, hb, rel>>)
    [] ev.e = "Callback" ->
         /\ nst' = [nst EXCEPT ![ev.n].state = "fired"]
         /\ U(<<nagents, online, inq, running, qsn, bar, holder, hb, rel>>)
    [] ev.e = "BarrierCall" ->
         \* the caller is quiescent for everybody else from here on; it waits for the others
         /\ nst' = [n \in DOMAIN nst |->
                      IF nst[n].state = "pending" /\ ev.a \in nst[n].waiting
                      THEN [nst[n] EXCEPT !.waiting = @ \ {ev.a}, !.req = @ \cup {Marker(ev.a)}] ELSE nst[n]]
         /\ bar' = [b \in Ags |->
                      IF b = ev.a THEN [active |-> TRUE, waiting |-> MustWait \ {ev.a}, req |-> {}]
                      ELSE IF bar[b].active /\ ev.a \in bar[b].waiting
                      THEN [bar[b] EXCEPT !.waiting = @ \ {ev.a}, !.req = @ \cup {Marker(ev.a)}] ELSE bar[b]]
         /\ hb' = IF Needed(ev.a) THEN [hb EXCEPT ![ev.a] = @ \cup {Marker(ev.a)}] ELSE hb
         /\ qsn' = IF Needed(ev.a) THEN [qsn EXCEPT ![ev.a] = @ + 1] ELSE qsn
         /\ inq' = [inq EXCEPT ![ev.a] = TRUE]
         /\ U(<<nagents, online, running, holder, rel>>)
    [] ev.e = "BarrierRet" ->
         /\ bar' = [bar EXCEPT ![ev.a] = [active |-> FALSE, waiting |-> {}, req |-> {}]]
         /\ inq' = [inq EXCEPT ![ev.a] = FALSE]
         /\ U(<<nagents, online, running, qsn, nst, holder, hb, rel>>)
    [] ev.e = "Lock" ->
         /\ holder' = ev.t + 1
         /\ hb' = [hb EXCEPT ![ev.t + 1] = @ \cup RelOf("mutex")]
         /\ U(<<nagents, online, inq, running, qsn, nst, bar, rel>>)
    [] ev.e = "Unlock" ->
         /\ holder' = 0
         /\ rel' = ("mutex" :> hb[ev.t + 1]) @@ rel
         /\ U(<<nagents, online, inq, running, qsn, nst, bar, hb>>)
    [] ev.e = "A" ->
         LET a == ev.t + 1 IN
         /\ hb' = IF ev.k \in {"load", "rmw", "casfail"}
                  THEN [hb EXCEPT ![a] = AfterAcquire(@, RelOf(ev.var), ev.mo)] ELSE hb
         /\ rel' = IF ev.k = "store" THEN (ev.var :> AfterStore(hb[a], ev.mo)) @@ rel
                   ELSE IF ev.k = "rmw" THEN (ev.var :> AfterRmw(hb[a], RelOf(ev.var), ev.mo)) @@ rel
                   ELSE rel
         /\ U(<<nagents, online, inq, running, qsn, nst, bar, holder>>)
    [] OTHER -> U(svars)

ResetTo(ev) ==
  /\ nagents' = ev.agents
  /\ online' = [a \in 1..ev.agents |-> FALSE]
  /\ inq' = [a \in 1..ev.agents |-> FALSE]
  /\ running' = [a \in 1..ev.agents |-> FALSE]
  /\ qsn' = [a \in 1..ev.agents |-> 0]
  /\ nst' = <<>>
  /\ bar' = [a \in 1..ev.agents |-> [active |-> FALSE, waiting |-> {}, req |-> {}]]
  /\ holder' = 0
  /\ hb' = [a \in 1..ev.agents |-> {}]
  /\ rel' = <<>>

TraceInit ==
  /\ nagents = 0 /\ online = <<>> /\ inq = <<>> /\ running = <<>> /\ qsn = <<>> /\ nst = <<>> /\ bar = <<>>
  /\ holder = 0 /\ hb = <<>> /\ rel = <<>>
  /\ l = 1 /\ nchk = 0 /\ InitDiag

TraceNext ==
  \/ /\ l <= NLines
     /\ LET ev == TraceLog[l] IN
        IF ev.e = "Reset" THEN ResetTo(ev) /\ l' = l + 1 /\ nchk' = nchk
        ELSE IF Accepts(ev) THEN Apply(ev) /\ l' = l + 1 /\ nchk' = nchk + 1
        ELSE ReportReject(l) /\ l' = NextResetFrom(l + 1) /\ UNCHANGED <<svars, nchk>>
  \/ /\ l = NLines + 1 /\ ReportDone(nchk) /\ l' = l + 1 /\ UNCHANGED <<svars, nchk>>

HolderSane == holder \in 0..nagents
=============================================================================

-------------------------------- MODULE MCQs --------------------------------
(* Model-checking wrapper for QsImpl: memory-order tables, history variable for    *)
(* behaviour emission (hidden by VIEW), state constraint.                           *)
EXTENDS QsImpl, Json

\* the orders written in qs.hpp at the pinned commit (before any repair)
MOpinned ==
   ("await_barrier.counter.load.0" :> "rlx") @@
   ("await_barrier.desired.casfail.0" :> "rlx") @@
   ("await_barrier.desired.load.0" :> "rlx") @@
   ("await_barrier.desired.rmw.0" :> "rlx") @@
   ("offline.counter.load.0" :> "rlx") @@
   ("offline.counter.store.0" :> "rel") @@
   ("offline.toAck.rmw.0" :> "rlx") @@
   ("offline.toAck.store.0" :> "rlx") @@
   ("online.counter.load.0" :> "rlx") @@
   ("online.counter.store.0" :> "rel") @@
   ("online.toAck.load.0" :> "rlx") @@
   ("online.toAck.store.0" :> "rlx") @@
   ("quiescent_barrier.counter.load.0" :> "rlx") @@
   ("quiescent_barrier.counter.load.1" :> "rlx") @@
   ("quiescent_barrier.desired.casfail.0" :> "rlx") @@
   ("quiescent_barrier.desired.load.0" :> "rlx") @@
   ("quiescent_barrier.desired.rmw.0" :> "rlx") @@
   ("quiescent_state.counter.load.0" :> "rlx") @@
   ("quiescent_state.counter.load.1" :> "acq") @@
   ("quiescent_state.counter.store.0" :> "rel") @@
   ("quiescent_state.counter.store.1" :> "rel") @@
   ("quiescent_state.desired.load.0" :> "rlx") @@
   ("quiescent_state.desired.load.1" :> "rlx") @@
   ("quiescent_state.toAck.rmw.0" :> "rlx") @@
   ("quiescent_state.toAck.store.0" :> "rlx") @@
   ("quiescent_state.toAck.store.1" :> "rlx") @@
   ("run.counter.load.0" :> "rlx")

\* the orders after the repair of C11's happens-before clause (see known_findings.jsonl)
MOfixed ==
   ("await_barrier.counter.load.0" :> "rlx") @@
   ("await_barrier.desired.casfail.0" :> "rlx") @@
   ("await_barrier.desired.load.0" :> "rlx") @@
   ("await_barrier.desired.rmw.0" :> "rlx") @@
   ("offline.counter.load.0" :> "rlx") @@
   ("offline.counter.store.0" :> "rel") @@
   ("offline.toAck.rmw.0" :> "acqrel") @@
   ("offline.toAck.store.0" :> "rlx") @@
   ("online.counter.load.0" :> "rlx") @@
   ("online.counter.store.0" :> "rel") @@
   ("online.toAck.load.0" :> "rlx") @@
   ("online.toAck.store.0" :> "rlx") @@
   ("quiescent_barrier.counter.load.0" :> "rlx") @@
   ("quiescent_barrier.counter.load.1" :> "acq") @@
   ("quiescent_barrier.desired.casfail.0" :> "rlx") @@
   ("quiescent_barrier.desired.load.0" :> "rlx") @@
   ("quiescent_barrier.desired.rmw.0" :> "rlx") @@
   ("quiescent_state.counter.load.0" :> "rlx") @@
   ("quiescent_state.counter.load.1" :> "acq") @@
   ("quiescent_state.counter.store.0" :> "rel") @@
   ("quiescent_state.counter.store.1" :> "rel") @@
   ("quiescent_state.desired.load.0" :> "rlx") @@
   ("quiescent_state.desired.load.1" :> "rlx") @@
   ("quiescent_state.toAck.rmw.0" :> "acqrel") @@
   ("quiescent_state.toAck.store.0" :> "rlx") @@
   ("quiescent_state.toAck.store.1" :> "rlx") @@
   ("run.counter.load.0" :> "acq")

VARIABLE hist
MCInit == Init /\ hist = <<>>
\* a history element names the agent and, when the step starts an API call, the call
OpNameUnused(a) ==
  CASE OnLock(a) -> "online" [] OffLock(a) -> "offline" [] QsCall(a) -> "qs" [] R1(a) -> "run" [] B1(a) -> "barrier"
    [] OTHER -> ""
MCNext ==
  \E a \in Agents :
    /\ Allowed(a)
    /\ \/ /\ OnLock(a) /\ hist' = Append(hist, [a |-> a, op |-> "online", n |-> 0])
       \/ /\ OffLock(a) /\ hist' = Append(hist, [a |-> a, op |-> "offline", n |-> 0])
       \/ /\ QsCall(a) /\ hist' = Append(hist, [a |-> a, op |-> "qs", n |-> 0])
       \/ /\ R1(a) /\ hist' = Append(hist, [a |-> a, op |-> "run", n |-> 0])
       \/ /\ B1(a) /\ hist' = Append(hist, [a |-> a, op |-> "barrier", n |-> 0])
       \/ \E n \in Nodes : A1(a, n) /\ hist' = Append(hist, [a |-> a, op |-> "await", n |-> n])
       \/ /\ Continue(a) /\ hist' = Append(hist, [a |-> a, op |-> "", n |-> 0])
MCView == vars
Emit == PrintT(<<"H", ToJson(hist')>>)
Bounded == D.counter <= MaxCounter

\* Reachability witnesses for rarely taken branches (used by tools/props/c11.py, stage "rare-branch witnesses"):
\* TLC is asked to REFUTE "this branch is never about to be taken"; the history of the shortest counterexample is a
\* schedule that drives the real code into the branch.  (PrintT is TRUE, so the implication is FALSE exactly there.)
\* A CAS on the desired counter that is about to fail AND has to be retried (another agent raised the desired counter
\* between this agent's load and its CAS, but not far enough): needs three registrations around a period change.
CasRetryAhead == \E a \in Agents : ag[a].pc = "a3" /\ D.desired # ag[a].c /\ D.desired < ag[a].target
NoCasRetryWitness == CasRetryAhead => ~PrintT(<<"W", ToJson(hist)>>)
\* the same branch in quiescent_barrier (the barrier's own CAS loop)
BarrierCasRetryAhead == \E a \in Agents : ag[a].pc = "b3" /\ D.desired # ag[a].c /\ D.desired < ag[a].btarget
NoBarrierCasRetryWitness == BarrierCasRetryAhead => ~PrintT(<<"W", ToJson(hist)>>)
=============================================================================

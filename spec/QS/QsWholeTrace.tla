---------------------------- MODULE QsWholeTrace ----------------------------
(* Binds spec/Apalache/QsInd.tla - the whole-call protocol whose invariant Apalache    *)
(* proves inductive for an unbounded period counter - to the real qs.hpp: a trace of   *)
(* harness/qs_whole.cpp carries, after every API call executed alone, the private       *)
(* protocol state of the domain, the agents and the nodes.  Each call must be the       *)
(* corresponding QsInd action (same enabling condition, same successor state), each      *)
(* callback a Fire step, and every state the code reaches must satisfy IndInv (a step     *)
(* is accepted only if its successor state does).                                        *)
EXTENDS QsInd, Sequences, TLC, TraceBase

VARIABLES l, nchk
svars == <<ctr, desired, num, toAck, acked, deferred, target, owner, owed, early>>

AsFun(seq, S) == [x \in S |-> seq[x]]
\* the logged private state equals the primed specification state
Logged(ev) ==
  /\ ctr' = ev.ctr /\ desired' = ev.desired /\ num' = ev.num /\ toAck' = ev.toAck
  /\ acked' = AsFun(ev.acked, Agents)
  /\ deferred' = [a \in Agents |-> ev.deferred[a] = 1]
  /\ target' = AsFun(ev.target, Nodes)

Act(ev) ==
  CASE ev.op = "online" -> GoOnline(ev.a)
    [] ev.op = "offline" -> GoOffline(ev.a)
    [] ev.op = "qs" -> Quiesce(ev.a)
    [] ev.op = "await" -> Await(ev.a, ev.n)
    [] OTHER -> FALSE

\* after run() returns no pending node of the agent has reached its target (it fired them all), state as logged
RunDone(ev) == /\ \A n \in Nodes : (target[n] # 0 /\ owner[n] = ev.a) => ctr < target[n]
               /\ ctr = ev.ctr /\ desired = ev.desired /\ num = ev.num /\ toAck = ev.toAck
               /\ acked = AsFun(ev.acked, Agents) /\ target = AsFun(ev.target, Nodes)

TraceInit ==
  /\ Init /\ l = 1 /\ nchk = 0 /\ InitDiag

Step(ev) ==
  CASE ev.e = "W" /\ ev.op # "run" -> Act(ev) /\ Logged(ev)
    [] ev.e = "W" /\ ev.op = "run" -> RunDone(ev) /\ UNCHANGED svars
    [] ev.e = "Cb" -> Fire(ev.a, ev.n)
    [] ev.e \in {"Skip", "HistDone"} -> UNCHANGED svars
    [] OTHER -> FALSE

StepOK(ev) == Step(ev) /\ IndInv'
\* The only PROPERTY-layer clause here: a callback runs although an agent that was online at registration has neither
\* quiesced nor left since (ghost owed, maintained from the kinds of the calls alone).  Everything else compares the code
\* with the implementation-shaped QsInd and is reported under the pseudo-property DRIFT (MODEL-DRIFT, never a verdict).
Early(ev) == ev.e = "Cb" /\ ev.n \in Nodes /\ owed[ev.n] # {}

Why(ev) ==
  IF ENABLED Step(ev) THEN "ReachedStateSatisfiesTheInductiveInvariant"
  ELSE IF ev.e = "W" /\ ev.op = "run" THEN "RunFiresEveryReachedCallbackAndNothingElse"
  ELSE IF ev.e = "Cb" THEN "CallbackOnlyWhenItsTargetPeriodIsReached"
  ELSE IF ev.e \in {"panic", "crash", "hang"} THEN "NoAssertionOrCrashInALegalCall"
  ELSE "CallHasTheNetEffectOfItsSpecAction"

TraceNext ==
  \/ /\ l <= NLines
     /\ LET ev == TraceLog[l] IN
        IF ev.e = "Reset"
        THEN /\ ctr' = 1 /\ desired' = 0 /\ num' = 0 /\ toAck' = 0
             /\ acked' = [a \in Agents |-> 0] /\ deferred' = [a \in Agents |-> FALSE]
             /\ target' = [n \in Nodes |-> 0] /\ owner' = [n \in Nodes |-> 0] /\ owed' = [n \in Nodes |-> {}] /\ early' = FALSE
             /\ l' = l + 1 /\ nchk' = nchk
        ELSE IF ENABLED StepOK(ev)
        THEN StepOK(ev) /\ l' = l + 1 /\ nchk' = nchk + 1
        ELSE /\ TLCSet(1, IF Early(ev) THEN <<"C11", "CallbackOnlyAfterEveryAgentOnlineAtRegistrationQuiescedOrLeft">>
                          ELSE IF ev.e \in {"panic", "crash", "hang"} THEN <<"C11", Why(ev)>> ELSE <<"DRIFT", Why(ev)>>)
             /\ ReportReject(l)
             /\ l' = NextResetFrom(l + 1) /\ UNCHANGED <<svars, nchk>>
  \/ /\ l = NLines + 1 /\ ReportDone(nchk) /\ l' = l + 1 /\ UNCHANGED <<svars, nchk>>

TypeSane == l >= 1
=============================================================================

CONSTANTS
  Agents = {1, 2, 3}
  Nodes = {1, 2}
  MaxCtr = 6
INIT MCInit
NEXT MCNext
VIEW MCView
CONSTRAINT Bound
INVARIANT IndInv
INVARIANT Safety
INVARIANT AssertsHold
ACTION_CONSTRAINT Emit
CHECK_DEADLOCK FALSE

CONSTANTS
  Agents = {1,2}
  Nodes = {1,2}
  MaxJoins = 2
  MaxOps = 5
  FreeQS = FALSE
  MaxCounter = 8
  Granularity = "access"
  AllowBarrier = TRUE
  MO <- MOfixed
INIT MCInit
NEXT MCNext
VIEW MCView
CONSTRAINT Bounded
INVARIANTS TypeOK AtMostOnce NoPanic NoUnderflow EmptyDomain MutexSane CallbackAfterGracePeriod BarrierAfterGracePeriod
CHECK_DEADLOCK FALSE

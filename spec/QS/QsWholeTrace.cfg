CONSTANTS
  Agents = {1, 2, 3}
  Nodes = {1, 2}
INIT TraceInit
NEXT TraceNext
INVARIANT TypeSane
CHECK_DEADLOCK FALSE

CONSTANTS
  Blocks = {1,2}
  Offsets = {0,16}
INIT Init
NEXT Next
INVARIANTS AliveInsideBlocks ExemptInsideBlocks AliveExemptDisjoint
CHECK_DEADLOCK FALSE

---------------------------- MODULE LifetimeTrace ----------------------------
(* Trace specification for C16: the event stream of every owning type - element     *)
(* constructions / assignments / destructions (the element type registers its own     *)
(* lifetime) and allocator calls (the allocator tracks every block) - must be a        *)
(* behaviour of the ledger.  A rejected event is the violation.                        *)
EXTENDS Integers, Sequences, FiniteSets, TLC, LedgerOps, TraceBase

VARIABLES kind, alive, blk, exempt, l, nchk
svars == <<kind, alive, blk, exempt>>
tvars == <<svars, l, nchk>>

Accepts(ev) ==
  CASE ev.e = "Alloc" -> G("C16", "FreshBlock", ev.b \notin DOMAIN blk)
    [] ev.e = "Dealloc" ->
         /\ G("C16", "DeallocateOnlyLiveBlockWithItsAllocatedSize", ev.b \in DOMAIN blk /\ blk[ev.b] = ev.n)
         /\ G("C16", "NoLiveElementInsideReturnedBlock", NoElementInside(ev.b, alive))
    [] ev.e = "Free" ->
         /\ G("C16", "FreeOnlyLiveBlock", ev.b \in DOMAIN blk)
         /\ G("C16", "NoLiveElementInsideReturnedBlock", NoElementInside(ev.b, alive))
    [] ev.e = "Ctor" ->
         /\ G("C16", "NeverConstructedOverALiveObject", ev.a \notin alive)
         /\ G("C16", "ConstructedInsideExistingStorage", StorageOK(ev.a, blk))
         /\ G("C16", "CopyOrMoveSourceInsideItsLifetime", Has(ev, "src") => ev.src \in alive)
    [] ev.e = "Assign" ->
         /\ G("C16", "AssignedOnlyInsideLifetime", ev.a \in alive)
         /\ G("C16", "AssignSourceInsideItsLifetime", ev.src \in alive)
    [] ev.e = "Dtor" ->
         /\ G("C16", "DestroyedExactlyOnce_InsideLifetime", ev.a \in alive)
         /\ G("C16", "DestroyedObjectWasIntact", ev.magic_ok = 1)
    [] ev.e = "Exempt" -> G("C16", "ErasedValueWasAlive", ev.a \in alive)
    [] ev.e = "OwnerGone" ->
         /\ G("C16", "NothingTheOwnerCreatedRemainsAlive", HeapAlive(alive) = {})
         /\ G("C16", "EveryBlockGivenBackExactlyOnce", DOMAIN blk = {} /\ ev.live_blocks = 0 /\ ev.bad_frees = 0)
    [] ev.e \in {"Op", "OpBegin", "TupleObs", "Note", "AliasPush"} -> TRUE
    [] ev.e = "panic" -> G("C16", "NoPanicInLegalState", FALSE)
    [] ev.e = "crash" -> G("C16", "NoCrash", FALSE)
    [] ev.e = "hang" -> G("C16", "EveryCallReturns", FALSE)
    [] OTHER -> G("C16", "UnmatchableEvent", FALSE)

Apply(ev) ==
  CASE ev.e = "Alloc" -> blk' = (ev.b :> ev.n) @@ blk /\ UNCHANGED <<kind, alive, exempt>>
    [] ev.e \in {"Dealloc", "Free"} ->
         /\ blk' = [x \in DOMAIN blk \ {ev.b} |-> blk[x]]
         /\ exempt' = {a \in exempt : a[1] # ev.b}
         /\ UNCHANGED <<kind, alive>>
    [] ev.e = "Ctor" -> alive' = alive \cup {ev.a} /\ exempt' = exempt \ {ev.a} /\ UNCHANGED <<kind, blk>>
    [] ev.e = "Dtor" -> alive' = alive \ {ev.a} /\ UNCHANGED <<kind, blk, exempt>>
    [] ev.e = "Exempt" -> alive' = alive \ {ev.a} /\ exempt' = exempt \cup {ev.a} /\ UNCHANGED <<kind, blk>>
    [] OTHER -> UNCHANGED svars

ResetTo(ev) == kind' = (IF Has(ev, "kind") THEN ev.kind ELSE "hash_map") /\ alive' = {} /\ blk' = <<>> /\ exempt' = {}
TraceInit == kind = "" /\ alive = {} /\ blk = <<>> /\ exempt = {} /\ l = 1 /\ nchk = 0 /\ InitDiag
TraceNext ==
  \/ /\ l <= NLines
     /\ LET ev == TraceLog[l] IN
        IF ev.e = "Reset" THEN ResetTo(ev) /\ l' = l + 1 /\ nchk' = nchk
        ELSE IF Accepts(ev) THEN Apply(ev) /\ l' = l + 1 /\ nchk' = nchk + 1
        ELSE ReportReject(l) /\ l' = NextResetFrom(l + 1) /\ UNCHANGED <<svars, nchk>>
  \/ /\ l = NLines + 1 /\ ReportDone(nchk) /\ l' = l + 1 /\ UNCHANGED <<svars, nchk>>
AliveExemptDisjoint == alive \cap exempt = {}
=============================================================================

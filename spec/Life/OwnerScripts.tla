---------------------------- MODULE OwnerScripts ----------------------------
(* Generator of operation sequences for the owning types that have no abstract      *)
(* model of their own in C13/C14/C17: unique_ptr, unique_memory, string, list        *)
(* (destroyed while non-empty), tuple and the radix tree.  The state only tracks      *)
(* what is needed to keep a sequence legal; every sequence up to MaxLen is emitted    *)
(* and its event stream is judged by the ledger (LifetimeTrace.tla).                  *)
EXTENDS Integers, Sequences, FiniteSets, TLC, Json

CONSTANTS Kind, MaxLen
VARIABLES st, hist
vars == <<st, hist>>

Names ==
  CASE Kind = "unique_ptr" -> {"make", "move_construct", "move_assign", "reset_null", "reset_new", "release"}
    [] Kind = "unique_memory" -> {"make", "move_construct", "move_assign", "drop"}
    [] Kind = "string" -> {"cstr", "copy_construct", "move_construct", "assign", "resize_up", "resize_down", "push_back",
                           "plus", "plus_char", "append", "from_view"}
    [] Kind = "list" -> {"emplace", "pop_front"}
    [] Kind = "tuple" -> {"make", "copy_construct", "move_construct", "copy_assign", "move_assign"}
    [] Kind = "radix" -> {"insert", "erase", "find_or_insert"}
Slots == IF Kind \in {"list"} THEN {1} ELSE IF Kind = "radix" THEN {1, 2, 3} ELSE {1, 2}     \* radix: d is the key
Ops == [name : Names, d : Slots]

\* st[d]: unique_ptr / unique_memory: 1 = owns something; list: number of items (in st[1]); radix: key present
Legal(op) ==
  CASE Kind = "unique_ptr" /\ op.name = "release" -> st[op.d] = 1
    [] Kind = "list" /\ op.name = "pop_front" -> st[1] > 0
    [] Kind = "list" /\ op.name = "emplace" -> st[1] < 3
    [] Kind = "radix" /\ op.name = "insert" -> st[op.d] = 0
    [] Kind = "radix" /\ op.name = "erase" -> st[op.d] = 1
    [] OTHER -> TRUE
Eff(op) ==
  LET d == op.d
      o == IF Kind \in {"list", "radix"} THEN op.d ELSE 3 - op.d IN
  CASE Kind \in {"unique_ptr", "unique_memory"} /\ op.name \in {"make", "reset_new"} -> [st EXCEPT ![d] = 1]
    [] Kind \in {"unique_ptr", "unique_memory"} /\ op.name = "move_construct" -> [st EXCEPT ![d] = st[o], ![o] = 0]
    [] Kind = "unique_ptr" /\ op.name = "move_assign" -> [st EXCEPT ![d] = st[o], ![o] = st[d]]      \* frigg swaps
    [] Kind = "unique_memory" /\ op.name = "move_assign" -> [st EXCEPT ![d] = st[o], ![o] = 0]
    [] op.name \in {"reset_null", "release", "drop"} -> [st EXCEPT ![d] = 0]
    [] Kind = "list" /\ op.name = "emplace" -> [st EXCEPT ![1] = @ + 1]
    [] Kind = "list" /\ op.name = "pop_front" -> [st EXCEPT ![1] = @ - 1]
    [] Kind = "radix" /\ op.name \in {"insert", "find_or_insert"} -> [st EXCEPT ![d] = 1]
    [] Kind = "radix" /\ op.name = "erase" -> [st EXCEPT ![d] = 0]
    [] OTHER -> st

Init == st = [d \in {1, 2, 3} |-> 0] /\ hist = <<>>
Next == \E op \in Ops : Len(hist) < MaxLen /\ Legal(op) /\ st' = Eff(op) /\ hist' = Append(hist, op)
Emit == PrintT(<<"H", ToJson(hist')>>)
Bounded == st[1] \in 0..3
=============================================================================

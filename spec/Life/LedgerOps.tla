------------------------------ MODULE LedgerOps ------------------------------
(* The lifetime ledger of property C16 as guards and effects over                   *)
(*   alive   - addresses <<block, offset>> that currently hold a constructed element  *)
(*   blk     - allocator blocks obtained and not yet given back: id -> size           *)
(*   exempt  - radix-tree values that were erased while readers might still hold them  *)
(*             (never destroyed by design, see DESIGN.md; may be constructed over)     *)
(* Constant-free: used by the generator model (Lifetime.tla) and by LifetimeTrace.tla.  *)
EXTENDS Integers, Sequences, FiniteSets

ElemSize == 16          \* sizeof(Tracked) in the harnesses
IsHeap(a) == a[1] >= 1 /\ a[1] < 1000          \* allocator block ids; >= 1000 inline storage of an owner; 0 harness temporaries

\* an element may be constructed at a only inside storage that exists
StorageOK(a, blk) == ~IsHeap(a) \/ (a[1] \in DOMAIN blk /\ a[2] + ElemSize <= blk[a[1]])
NoElementInside(b, alive) == \A a \in alive : a[1] # b
HeapAlive(alive) == {a \in alive : a[1] # 0}
=============================================================================

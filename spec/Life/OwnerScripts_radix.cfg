CONSTANTS
  Kind = "radix"
  MaxLen = 5
INIT Init
NEXT Next
INVARIANT Bounded
ACTION_CONSTRAINT Emit
CHECK_DEADLOCK FALSE

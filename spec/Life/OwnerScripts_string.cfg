CONSTANTS
  Kind = "string"
  MaxLen = 3
INIT Init
NEXT Next
INVARIANT Bounded
ACTION_CONSTRAINT Emit
CHECK_DEADLOCK FALSE

CONSTANTS
  Kind = "list"
  MaxLen = 6
INIT Init
NEXT Next
INVARIANT Bounded
ACTION_CONSTRAINT Emit
CHECK_DEADLOCK FALSE

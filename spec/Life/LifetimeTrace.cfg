INIT TraceInit
NEXT TraceNext
INVARIANT AliveExemptDisjoint
CHECK_DEADLOCK FALSE

------------------------------- MODULE Lifetime -------------------------------
(* Generator model of the lifetime ledger (C16): an owner that only ever performs    *)
(* legal events keeps the ledger invariants; TLC checks them over all legal event     *)
(* sequences for a few addresses and blocks (the ledger itself is what the trace      *)
(* specification applies to the event streams of the real owning types).              *)
EXTENDS Integers, Sequences, FiniteSets, TLC, LedgerOps

CONSTANTS Blocks, Offsets
VARIABLES alive, blk, exempt
vars == <<alive, blk, exempt>>

Addrs == {<<b, o>> : b \in Blocks, o \in Offsets}
Init == alive = {} /\ blk = <<>> /\ exempt = {}

Alloc(b) == b \notin DOMAIN blk /\ blk' = (b :> 32) @@ blk /\ UNCHANGED <<alive, exempt>>
Construct(a) == a \notin alive /\ StorageOK(a, blk) /\ alive' = alive \cup {a} /\ exempt' = exempt \ {a} /\ UNCHANGED blk
Destroy(a) == a \in alive /\ alive' = alive \ {a} /\ UNCHANGED <<blk, exempt>>
Erase(a) == a \in alive /\ alive' = alive \ {a} /\ exempt' = exempt \cup {a} /\ UNCHANGED blk
Dealloc(b) == /\ b \in DOMAIN blk /\ NoElementInside(b, alive)
              /\ blk' = [x \in DOMAIN blk \ {b} |-> blk[x]] /\ exempt' = {a \in exempt : a[1] # b} /\ UNCHANGED alive
Next == \E b \in Blocks : Alloc(b) \/ Dealloc(b) \/ \E a \in Addrs : Construct(a) \/ Destroy(a) \/ Erase(a)
Spec == Init /\ [][Next]_vars

\* every live element sits in storage that exists
AliveInsideBlocks == \A a \in alive : StorageOK(a, blk)
ExemptInsideBlocks == \A a \in exempt : a[1] \in DOMAIN blk
AliveExemptDisjoint == alive \cap exempt = {}
=============================================================================

CONSTANTS
  Kind = "unique_ptr"
  MaxLen = 4
INIT Init
NEXT Next
INVARIANT Bounded
ACTION_CONSTRAINT Emit
CHECK_DEADLOCK FALSE

----------------------------- MODULE HoldersTrace -----------------------------
(* Trace specification for C17: after every operation the engaged/alternative/error *)
(* state and the held value read through the holder's accessors must be what the      *)
(* specification (the standard type's semantics, HolderOps.tla) says.  The harness     *)
(* runs the standard type side by side; a disagreement between the specification and   *)
(* the standard type is reported under the pseudo-property SPEC (my mistake, not        *)
(* frigg's).  tuple observations are checked as equalities of sequences.                *)
EXTENDS Integers, Sequences, FiniteSets, TLC, HolderOps, TraceBase

VARIABLES kind, s, l, nchk
svars == <<kind, s>>
tvars == <<svars, l, nchk>>

OpOf(ev) == [name |-> ev.name, d |-> ev.d, x |-> ev.x, i |-> ev.i]

Accepts(ev) ==
  CASE ev.e = "Op" ->
         LET op == OpOf(ev)
             st == IF ev.skipped = 1 THEN s ELSE Eff(kind, op, s) IN
         /\ G("C17", "KnownOperation", ev.name \in Names(kind))
         /\ G("C17", "LegalOperation", ev.skipped = 1 \/ Legal(kind, op, s))
         /\ G("SPEC", "SpecificationAgreesWithStandardType", ev.ref = st)
         /\ G("C17", "StateAndValueAgreeWithStandardSemantics", ev.obs = st)
         \* beyond the listed property (NOTE only; kept last so that it cannot hide a C17 clause of the same event)
         /\ G("EXTRA", "OptionalComparisonOperatorsAgreeWithStd", Has(ev, "cmp") => ev.cmp = ev.refcmp)
    [] ev.e = "TupleObs" ->
         /\ G("C17", "TupleGetPreservesOrderAndValues", ev.got = ev.vals)
         /\ G("C17", "TupleApplyPassesElementsInOrder", ev.applied = ev.vals)
         /\ G("C17", "TupleCatConcatenates", ev.cat = ev.vals)
         /\ G("C17", "TupleReferenceIdentity", ev.refsame = 1 /\ ev.write_through = 1)
         /\ G("C17", "TupleConvertingConstruction", ev.conv = SubSeq(ev.vals, 1, 2))
    [] ev.e \in {"Ctor", "Dtor", "Assign", "Alloc", "Dealloc", "Free", "OpBegin", "OwnerGone"} -> TRUE
    [] ev.e = "panic" -> G("C17", "NoPanicInLegalState", FALSE)
    [] ev.e = "crash" -> G("C17", "NoCrash", FALSE)
    [] ev.e = "hang" -> G("C17", "EveryCallReturns", FALSE)
    [] OTHER -> G("C17", "UnmatchableEvent", FALSE)

Apply(ev) == IF ev.e = "Op" /\ ev.skipped = 0 THEN s' = Eff(kind, OpOf(ev), s) /\ kind' = kind ELSE UNCHANGED svars
ResetTo(ev) == kind' = ev.kind /\ s' = <<DefaultOf(ev.kind), DefaultOf(ev.kind)>>
TraceInit == kind = "" /\ s = <<Empty, Empty>> /\ l = 1 /\ nchk = 0 /\ InitDiag
TraceNext ==
  \/ /\ l <= NLines
     /\ LET ev == TraceLog[l] IN
        IF ev.e = "Reset" THEN ResetTo(ev) /\ l' = l + 1 /\ nchk' = nchk
        ELSE IF Accepts(ev) THEN Apply(ev) /\ l' = l + 1 /\ nchk' = nchk + (IF ev.e \in {"Op", "TupleObs"} THEN 1 ELSE 0)
        ELSE ReportReject(l) /\ l' = NextResetFrom(l + 1) /\ UNCHANGED <<svars, nchk>>
  \/ /\ l = NLines + 1 /\ ReportDone(nchk) /\ l' = l + 1 /\ UNCHANGED <<svars, nchk>>
TwoSlots == Len(s) = 2
=============================================================================

INIT TraceInit
NEXT TraceNext
INVARIANT TwoSlots
CHECK_DEADLOCK FALSE

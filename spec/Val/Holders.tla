------------------------------- MODULE Holders -------------------------------
(* Model of two holder variables of one kind; TLC explores the closed product graph *)
(* (destination state x source state x operation) - property C17.                     *)
EXTENDS Integers, Sequences, FiniteSets, TLC, HolderOps, Json

CONSTANTS Kind, Values
VARIABLES s, hist
vars == <<s>>

Alts == IF Kind = "variant" THEN {1, 2, 3} ELSE {1}
Ops == { [name |-> nm, d |-> d, x |-> x, i |-> i] : nm \in Names(Kind), d \in {1, 2}, x \in {0} \cup Values, i \in {0} \cup Alts }
Canon(op) ==
  CASE op.name \in {"value", "value_with", "value_copy", "value_conv", "emplace"} -> op.x \in Values /\ op.i = (IF Kind = "variant" THEN op.i ELSE 0) /\ (Kind = "variant" => op.i \in Alts)
    [] op.name = "assign_value" -> op.x \in Values /\ op.i = 0
    [] op.name = "error" -> op.x \in Values /\ op.i = 0
    [] op.name \in {"assign_conv", "assign_conv_copy"} -> (op.i = 1 /\ op.x \in Values) \/ (op.i = 0 /\ op.x = 0)
    [] OTHER -> op.x = 0 /\ op.i = 0

Init == s = <<DefaultOf(Kind), DefaultOf(Kind)>> /\ hist = <<>>
Do(op) == Canon(op) /\ Legal(Kind, op, s) /\ s' = Eff(Kind, op, s) /\ hist' = Append(hist, op)
Next == \E op \in Ops : Do(op)
View == vars
Emit == PrintT(<<"H", ToJson(hist')>>)

TypeOK == \A d \in {1, 2} : s[d][1] \in 0..3
\* a disengaged holder carries no value
EmptyHasNoValue == \A d \in {1, 2} : s[d][1] = 0 => s[d][2] = 0
=============================================================================

CONSTANTS
  Kind = "expected_void"
  Values = {1,2}
INIT Init
NEXT Next
VIEW View
INVARIANTS TypeOK EmptyHasNoValue
ACTION_CONSTRAINT Emit
CHECK_DEADLOCK FALSE

------------------------------ MODULE HolderOps ------------------------------
(* Meaning of the operations of frigg's value holders (property C17), written as    *)
(* the semantics of the corresponding standard types:                                *)
(*   optional<T>      ~ std::optional<T>                                              *)
(*   expected<E, T>   ~ std::expected<T, E>   (default = value-initialised T)          *)
(*   variant<A,B,C>   ~ std::variant with a valueless state                            *)
(*   manual_box<T>    ~ storage + "initialised" flag                                   *)
(* A holder is <<tag, val>>: tag 0 = disengaged / valueless / uninitialised;           *)
(* optional, manual_box: tag 1 = engaged; expected: 1 = value, 2 = error;               *)
(* variant: tag = index of the alternative (1..3).                                      *)
(* Constant-free: shared by the model (Holders.tla) and the trace specification.        *)
EXTENDS Integers, Sequences, FiniteSets

Empty == <<0, 0>>
Other(d) == 3 - d

Flip(x) == IF x = 1 THEN 2 ELSE 1          \* the function handed to map / map_error
DefaultOf(kind) == IF kind \in {"expected", "expected_void"} THEN <<1, 0>> ELSE Empty

Names(kind) ==
  CASE kind = "optional" -> {"default", "value", "value_copy", "value_conv", "null", "copy_construct", "move_construct", "copy_assign", "move_assign",
                             "assign_null", "assign_value", "assign_conv", "assign_conv_copy", "emplace"}
    [] kind = "expected" -> {"default", "value", "error", "copy_construct", "move_construct", "copy_assign", "move_assign",
                             "unwrap", "map", "map_error"}
    \* expected<E, void>: success (tag 1, no value) or an error
    [] kind = "expected_void" -> {"default", "success", "error", "copy_construct", "move_construct", "copy_assign", "move_assign",
                                  "unwrap", "map_error"}
    [] kind = "variant" -> {"default", "value", "copy_construct", "move_construct", "copy_assign", "move_assign", "emplace"}
    [] kind = "manual_box" -> {"value", "value_with", "destruct"}     \* initialize(args) / construct_with(f) / destruct()

\* documented preconditions
Legal(kind, op, st) ==
  CASE kind = "manual_box" /\ op.name \in {"value", "value_with"} -> st[op.d][1] = 0        \* initialize() on an uninitialised box
    [] kind = "manual_box" /\ op.name = "destruct" -> st[op.d][1] = 1
    [] kind \in {"expected", "expected_void"} /\ op.name = "error" -> op.x # 0                 \* E{} means "no error"
    [] kind \in {"expected", "expected_void"} /\ op.name = "unwrap" -> st[op.d][1] = 1           \* unwrap() of an error is a contract violation
    [] OTHER -> TRUE

\* alternative index used by value / emplace (1 for everything but variant)
Alt(kind, op) == IF kind = "variant" THEN op.i ELSE 1

Eff(kind, op, st) ==
  LET d == op.d
      o == Other(op.d) IN
  CASE op.name \in {"default", "success"} -> [st EXCEPT ![d] = DefaultOf(kind)]
    \* (value: from an rvalue T; value_copy: from a const T lvalue; value_conv: from a value of another, convertible type)
    [] op.name \in {"value", "value_with", "value_copy", "value_conv", "emplace", "assign_value"} -> [st EXCEPT ![d] = <<Alt(kind, op), op.x>>]
    [] op.name \in {"null", "assign_null", "destruct"} -> [st EXCEPT ![d] = Empty]
    [] op.name = "error" -> [st EXCEPT ![d] = <<2, op.x>>]
    \* copying and moving leave the source as it is (a moved-from holder stays engaged)
    [] op.name \in {"copy_construct", "move_construct", "copy_assign", "move_assign"} -> [st EXCEPT ![d] = st[o]]
    \* unwrap() moves the value out; the holder stays in the value state (the harness compares the returned value)
    [] op.name = "unwrap" -> st
    \* d := other.map(Flip) / other.map_error(Flip): the function is applied to the value (to the error), the other side is passed on
    [] op.name = "map" -> [st EXCEPT ![d] = IF st[o][1] = 1 THEN <<1, Flip(st[o][2])>> ELSE st[o]]
    [] op.name = "map_error" -> [st EXCEPT ![d] = IF st[o][1] = 2 THEN <<2, Flip(st[o][2])>> ELSE st[o]]
    \* assignment from an optional of another (convertible) type: engaged with x when i = 1, else disengaged
    \* (assign_conv takes the source as an rvalue, assign_conv_copy as a const lvalue: two different overloads)
    [] op.name \in {"assign_conv", "assign_conv_copy"} -> [st EXCEPT ![d] = IF op.i = 1 THEN <<1, op.x>> ELSE Empty]
=============================================================================

----------------------------- MODULE TicketInd -----------------------------
(* Inductive-invariant argument for frg::ticket_spinlock (property C12), checked   *)
(* with Apalache: the ticket counters are unbounded integers here, so unlike the    *)
(* TLC runs of Spinlocks.tla (2-3 threads, 2 rounds) the result holds for runs of    *)
(* any length.  One action per atomic access of spinlock.hpp:                         *)
(*   Take(t)   ticket = fetch_add(next_ticket, 1)                                      *)
(*   Spin(t)   load serving_ticket; enter iff it equals the ticket                      *)
(*   ULoad(t)  current = load serving_ticket        (unlock, first access)               *)
(*   UStore(t) store serving_ticket = current + 1    (unlock, second access)              *)
(* IndInv => MutualExclusion /\ TicketOrder; Init => IndInv; IndInv /\ Next => IndInv'.   *)
EXTENDS Integers, FiniteSets

CONSTANT
  \* @type: Set(Int);
  Threads

VARIABLES
  \* @type: Int;
  next,
  \* @type: Int;
  serving,
  \* @type: Int -> Str;
  pc,
  \* @type: Int -> Int;
  ticket,
  \* @type: Int -> Int;
  cur

CInit == Threads = {1, 2, 3, 4}

Init ==
  /\ next = 0 /\ serving = 0
  /\ pc = [t \in Threads |-> "idle"]
  /\ ticket = [t \in Threads |-> 0]
  /\ cur = [t \in Threads |-> 0]

Take(t) == /\ pc[t] = "idle"
           /\ ticket' = [ticket EXCEPT ![t] = next]
           /\ next' = next + 1
           /\ pc' = [pc EXCEPT ![t] = "wait"]
           /\ UNCHANGED <<serving, cur>>
Spin(t) == /\ pc[t] = "wait"
           /\ pc' = [pc EXCEPT ![t] = IF serving = ticket[t] THEN "cs" ELSE "wait"]
           /\ UNCHANGED <<next, serving, ticket, cur>>
ULoad(t) == /\ pc[t] = "cs"
            /\ cur' = [cur EXCEPT ![t] = serving]
            /\ pc' = [pc EXCEPT ![t] = "ustore"]
            /\ UNCHANGED <<next, serving, ticket>>
UStore(t) == /\ pc[t] = "ustore"
             /\ serving' = cur[t] + 1
             /\ pc' = [pc EXCEPT ![t] = "idle"]
             /\ UNCHANGED <<next, ticket, cur>>
Next == \E t \in Threads : Take(t) \/ Spin(t) \/ ULoad(t) \/ UStore(t)

\* negative control: an unlock that skips a ticket must break the induction step
UStoreSkip(t) == /\ pc[t] = "ustore"
                 /\ serving' = cur[t] + 2
                 /\ pc' = [pc EXCEPT ![t] = "idle"]
                 /\ UNCHANGED <<next, ticket, cur>>
NextBroken == \E t \in Threads : Take(t) \/ Spin(t) \/ ULoad(t) \/ UStoreSkip(t)

Holding(t) == pc[t] \in {"cs", "ustore"}
Active(t) == pc[t] # "idle"

MutualExclusion == \A a \in Threads : \A b \in Threads : (Holding(a) /\ Holding(b)) => a = b
\* the lock is granted in ticket order: whoever holds it has the smallest outstanding ticket
TicketOrder == \A a \in Threads : \A b \in Threads : (Holding(a) /\ Active(b)) => ticket[a] <= ticket[b]

IndInv ==
  /\ next \in Int /\ serving \in Int
  /\ pc \in [Threads -> {"idle", "wait", "cs", "ustore"}]
  /\ ticket \in [Threads -> Int] /\ cur \in [Threads -> Int]
  /\ 0 <= serving /\ serving <= next
  \* outstanding tickets are exactly serving..next-1, each held by one active thread
  /\ \A t \in Threads : Active(t) => (serving <= ticket[t] /\ ticket[t] < next)
  /\ \A a \in Threads : \A b \in Threads : (Active(a) /\ Active(b) /\ ticket[a] = ticket[b]) => a = b
  \* (stated by counting - Apalache cannot quantify over a non-constant range - : as many active threads as tickets)
  /\ next - serving = Cardinality({t \in Threads : Active(t)})
  \* a holder owns the ticket being served; in the middle of unlock it remembered that value
  /\ \A t \in Threads : Holding(t) => ticket[t] = serving
  /\ \A t \in Threads : pc[t] = "ustore" => cur[t] = serving

Safety == MutualExclusion /\ TicketOrder
=============================================================================

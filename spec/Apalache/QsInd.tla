------------------------------- MODULE QsInd -------------------------------
(* Inductive-invariant argument for the quiescent-state domain of qs.hpp (property C11), *)
(* at the granularity of whole API calls, checked with Apalache.  The period counter is    *)
(* an unbounded integer: unlike the TLC runs of QsImpl.tla (counter <= 9, <= 5 calls per    *)
(* agent) the result covers runs of any length, for 3 agents and 2 callback nodes.           *)
(*                                                                                           *)
(* Each action is the net effect of one call of qs.hpp executed alone (the calls serialise   *)
(* on the domain mutex wherever they write shared state; the access-level interleavings are  *)
(* the business of QsImpl.tla and TLC).  Ghost state: owed[n] = the agents that were online   *)
(* when node n was registered and have neither passed a quiescent state nor gone offline      *)
(* since.  Safety: a callback fires only when owed[n] = {}.                                   *)
EXTENDS Integers, FiniteSets

CONSTANTS
  \* @type: Set(Int);
  Agents,
  \* @type: Set(Int);
  Nodes

VARIABLES
  \* @type: Int;
  ctr,          \* _qs_counter
  \* @type: Int;
  desired,      \* _desired_qs_counter
  \* @type: Int;
  num,          \* _num_agents
  \* @type: Int;
  toAck,        \* _agents_to_ack
  \* @type: Int -> Int;
  acked,        \* _acked_qs_counter per agent, 0 = offline
  \* @type: Int -> Bool;
  deferred,     \* _qs_deferred per agent
  \* @type: Int -> Int;
  target,       \* node -> _target_qs_counter, 0 = not pending
  \* @type: Int -> Int;
  owner,        \* node -> registering agent (meaningful while pending)
  \* @type: Int -> Set(Int);
  owed,         \* ghost, see above
  \* @type: Bool;
  early         \* ghost: some callback fired while its owed set was not empty

CInit == Agents = {1, 2, 3} /\ Nodes = {1, 2}
CInit4 == Agents = {1, 2, 3, 4} /\ Nodes = {1, 2, 3}

Online(a) == acked[a] # 0
OnlineSet == {a \in Agents : acked[a] # 0}
Max(x, y) == IF x > y THEN x ELSE y

Init ==
  /\ ctr = 1 /\ desired = 0 /\ num = 0 /\ toAck = 0
  /\ acked = [a \in Agents |-> 0]
  /\ deferred = [a \in Agents |-> FALSE]
  /\ target = [n \in Nodes |-> 0]
  /\ owner = [n \in Nodes |-> 0]
  /\ owed = [n \in Nodes |-> {}]
  /\ early = FALSE

\* an agent passing a quiescent state or leaving pays what it owes
Paid(a) == [n \in Nodes |-> owed[n] \ {a}]

GoOnline(a) ==
  /\ acked[a] = 0
  /\ num' = num + 1
  /\ IF num = 0 THEN toAck' = 1 /\ ctr' = ctr + 1 ELSE UNCHANGED <<toAck, ctr>>
  /\ acked' = [acked EXCEPT ![a] = ctr]
  /\ UNCHANGED <<desired, deferred, target, owner, owed, early>>

GoOffline(a) ==
  /\ acked[a] # 0 /\ ~deferred[a]
  /\ num' = num - 1
  /\ IF acked[a] # ctr
     THEN IF toAck = 1 THEN toAck' = num - 1 /\ ctr' = ctr + 1
          ELSE toAck' = toAck - 1 /\ UNCHANGED ctr
     ELSE UNCHANGED <<toAck, ctr>>
  /\ acked' = [acked EXCEPT ![a] = 0]
  /\ owed' = Paid(a)
  /\ UNCHANGED <<desired, deferred, target, owner, early>>

Quiesce(a) ==
  /\ acked[a] # 0
  /\ owed' = Paid(a)
  /\ IF deferred[a]
     THEN IF desired > acked[a]
          THEN toAck' = num /\ ctr' = acked[a] + 1 /\ deferred' = [deferred EXCEPT ![a] = FALSE] /\ UNCHANGED acked
          ELSE UNCHANGED <<toAck, ctr, deferred, acked>>
     ELSE IF acked[a] # ctr
          THEN /\ acked' = [acked EXCEPT ![a] = acked[a] + 1]
               /\ IF toAck = 1
                  THEN IF desired > ctr
                       THEN toAck' = num /\ ctr' = ctr + 1 /\ UNCHANGED deferred
                       ELSE toAck' = 0 /\ deferred' = [deferred EXCEPT ![a] = TRUE] /\ UNCHANGED ctr
                  ELSE toAck' = toAck - 1 /\ UNCHANGED <<ctr, deferred>>
          ELSE UNCHANGED <<toAck, ctr, deferred, acked>>
  /\ UNCHANGED <<desired, num, target, owner, early>>

Await(a, n) ==
  /\ acked[a] # 0 /\ target[n] = 0
  /\ target' = [target EXCEPT ![n] = ctr + 2]
  /\ owner' = [owner EXCEPT ![n] = a]
  /\ desired' = Max(desired, ctr + 2)
  /\ owed' = [owed EXCEPT ![n] = OnlineSet]
  /\ UNCHANGED <<ctr, num, toAck, acked, deferred, early>>

\* run(): the callback of a pending node of agent a whose target has been reached
Fire(a, n) ==
  /\ acked[a] # 0 /\ target[n] # 0 /\ owner[n] = a /\ ctr >= target[n]
  /\ target' = [target EXCEPT ![n] = 0]
  /\ early' = (early \/ owed[n] # {})
  /\ UNCHANGED <<ctr, desired, num, toAck, acked, deferred, owner, owed>>

Next == \E a \in Agents :
          \/ GoOnline(a) \/ GoOffline(a) \/ Quiesce(a)
          \/ \E n \in Nodes : Await(a, n) \/ Fire(a, n)

\* negative control: registering for the end of the CURRENT period only must break the induction step
AwaitShort(a, n) ==
  /\ acked[a] # 0 /\ target[n] = 0
  /\ target' = [target EXCEPT ![n] = ctr + 1]
  /\ owner' = [owner EXCEPT ![n] = a]
  /\ desired' = Max(desired, ctr + 1)
  /\ owed' = [owed EXCEPT ![n] = OnlineSet]
  /\ UNCHANGED <<ctr, num, toAck, acked, deferred, early>>
NextBroken == \E a \in Agents :
          \/ GoOnline(a) \/ GoOffline(a) \/ Quiesce(a)
          \/ \E n \in Nodes : AwaitShort(a, n) \/ Fire(a, n)

\* ------------------------------------------------------------------------------------------
Safety == ~early
\* the FRG_ASSERTs of online / offline / quiescent_state cannot fire
AssertsHold ==
  /\ num = 0 => toAck = 0
  /\ \A a \in Agents : (acked[a] # 0 /\ acked[a] # ctr) => acked[a] + 1 = ctr
  /\ \A a \in Agents : deferred[a] => acked[a] = ctr
  /\ toAck >= 0

Lagging == {a \in Agents : acked[a] # 0 /\ acked[a] # ctr}      \* online, current period not yet acknowledged

IndInv ==
  /\ ctr \in Int /\ desired \in Int /\ num \in Int /\ toAck \in Int
  /\ acked \in [Agents -> Int] /\ deferred \in [Agents -> BOOLEAN]
  /\ target \in [Nodes -> Int] /\ owner \in [Nodes -> Agents \cup {0}]
  /\ owed \in [Nodes -> SUBSET Agents]
  /\ early = FALSE
  /\ ctr >= 1
  /\ num = Cardinality(OnlineSet)
  \* an online agent has acknowledged the current period or the one before
  /\ \A a \in Agents : acked[a] # 0 => (acked[a] = ctr \/ acked[a] = ctr - 1)
  \* the acknowledgement counter counts exactly the agents that still have to acknowledge
  /\ toAck = Cardinality(Lagging)
  \* a deferred agent exists only when the period is complete, and is online
  /\ \A a \in Agents : deferred[a] => (acked[a] = ctr /\ Lagging = {})
  /\ \A a \in Agents : \A b \in Agents : (deferred[a] /\ deferred[b]) => a = b
  \* a complete period with online agents is either deferred by somebody or... never left hanging
  /\ (num > 0 /\ Lagging = {}) => \E a \in Agents : deferred[a]
  /\ desired <= ctr + 2
  \* pending nodes
  /\ \A n \in Nodes : target[n] = 0 => owed[n] = {}
  /\ \A n \in Nodes : target[n] # 0 =>
        /\ owner[n] \in Agents
        /\ target[n] <= ctr + 2 /\ target[n] <= desired
        /\ owed[n] \subseteq OnlineSet
        /\ (ctr = target[n] - 1 => owed[n] \subseteq Lagging)
        /\ (ctr >= target[n] => owed[n] = {})
=============================================================================

CONSTANT Threads = {1,2,3,4}
INIT Init
NEXT Next
INVARIANT IndInv

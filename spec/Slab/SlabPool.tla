------------------------------ MODULE SlabPool ------------------------------
(* Implementation-shaped model of frigg's slab_pool at the granularity of lock      *)
(* operations and policy calls (the seam points of the harness): allocate (fast      *)
(* path from the head slab; slow path that drops the bucket lock, maps and carves a  *)
(* slab, accounts it under the tree lock and re-takes the bucket lock to attach it),  *)
(* free (push under the bucket lock, re-attach a slab that was full), large blocks    *)
(* (map / tree lock; tree lock / unmap) and the copying realloc (allocate + free).    *)
(* map() may fail (at most MaxFail times): the call returns null and changes nothing. *)
(*                                                                                   *)
(* Addresses are abstracted to slab ids and counts; what the property layer needs is  *)
(* the call structure.  Properties checked here: no block handed out twice (slab      *)
(* accounting), locks balanced, policy called without locks, no deadlock, every call   *)
(* returns (fairness), bounded footprint (single thread), failure changes nothing.     *)
EXTENDS Integers, Sequences, FiniteSets, TLC

CONSTANTS Threads,      \* e.g. {0,1}
          Classes,      \* small size classes used, e.g. {3,4}
          Cap,          \* Cap[c] = objects per slab
          MaxOps,       \* calls per thread
          MaxLive,      \* bound on simultaneously live blocks
          MaxBlocks,    \* block ids 1..MaxBlocks
          MaxSlabs,
          MaxFail,      \* how many map() calls may fail
          AllowLarge, AllowRealloc

VARIABLES slabs,        \* sequence of [cls, free, inPartial]
          blk,          \* blk[b] = [state: "none" | "live" | "busy", cls (0 = large), slab]
          bucket,       \* bucket[c] = holder thread or -1
          tree,         \* holder of the tree mutex or -1
          th,           \* per thread: [pc, op, c, b, nb, slab, ops, failed]
          nfail,
          stats         \* per class [cur, peak] (ghost for the footprint bound)

vars == <<slabs, blk, bucket, tree, th, nfail, stats>>

Large == 0
CapLive == <<19, 9, 4, 2>>
Idle == [pc |-> "idle", op |-> "", c |-> 0, b |-> 0, nb |-> 0, slab |-> 0, ops |-> 0, failed |-> FALSE]

Init ==
  /\ slabs = <<>>
  /\ blk = [b \in 1..MaxBlocks |-> [state |-> "none", cls |-> 0, slab |-> 0]]
  /\ bucket = [c \in Classes |-> -1]
  /\ tree = -1
  /\ th = [t \in Threads |-> Idle]
  /\ nfail = 0
  /\ stats = [c \in Classes |-> [cur |-> 0, peak |-> 0]]

Partial(c) == {s \in 1..Len(slabs) : slabs[s].cls = c /\ slabs[s].inPartial}
HeadSlab(c) == IF Partial(c) = {} THEN 0 ELSE CHOOSE s \in Partial(c) : \A u \in Partial(c) : s <= u
FreshBlock == IF \E b \in 1..MaxBlocks : blk[b].state = "none"
              THEN CHOOSE b \in 1..MaxBlocks : blk[b].state = "none" /\ \A u \in 1..MaxBlocks : blk[u].state = "none" => b <= u
              ELSE 0
LiveCount == Cardinality({b \in 1..MaxBlocks : blk[b].state # "none"})
Set(t, r) == th' = [th EXCEPT ![t] = r]
Done(t) == [Idle EXCEPT !.ops = th[t].ops]
Bump(c) == IF c = Large THEN stats ELSE [stats EXCEPT ![c].cur = @ + 1, ![c].peak = IF stats[c].cur + 1 > @ THEN stats[c].cur + 1 ELSE @]
Drop(c) == IF c = Large THEN stats ELSE [stats EXCEPT ![c].cur = @ - 1]

-----------------------------------------------------------------------------
\* call starts: the first seam event of the call is part of the step

\* allocate(small): first seam = lock of the bucket mutex
AllocSmallStart(t, c) ==
  /\ th[t].pc = "idle" /\ th[t].ops < MaxOps /\ LiveCount < MaxLive /\ FreshBlock # 0
  /\ bucket[c] = -1
  /\ bucket' = [bucket EXCEPT ![c] = t]
  /\ Set(t, [th[t] EXCEPT !.pc = "a_locked", !.op = "alloc", !.c = c, !.ops = @ + 1, !.nb = FreshBlock])
  /\ blk' = [blk EXCEPT ![FreshBlock] = [state |-> "busy", cls |-> c, slab |-> 0]]
  /\ UNCHANGED <<slabs, tree, nfail, stats>>

\* under the bucket lock: take from the head slab, or find the bucket empty; then unlock (seam)
AllocUnlock(t) ==
  /\ th[t].pc = "a_locked"
  /\ LET c == th[t].c
         h == HeadSlab(c) IN
     IF h # 0
     THEN /\ slabs' = [slabs EXCEPT ![h].free = @ - 1, ![h].inPartial = (slabs[h].free - 1 > 0)]
          /\ blk' = [blk EXCEPT ![th[t].nb].slab = h]
          /\ Set(t, [th[t] EXCEPT !.pc = "ret_ok"])
     ELSE /\ slabs' = slabs /\ blk' = blk
          /\ Set(t, [th[t] EXCEPT !.pc = "a_map"])
  /\ bucket' = [bucket EXCEPT ![th[t].c] = -1]
  /\ UNCHANGED <<tree, nfail, stats>>

\* _construct_slab: policy map (seam), no lock held; may fail
AllocMap(t, fail) ==
  /\ th[t].pc = "a_map"
  /\ IF fail
     THEN /\ nfail < MaxFail /\ nfail' = nfail + 1
          /\ slabs' = slabs
          /\ Set(t, [th[t] EXCEPT !.pc = "ret_null", !.failed = TRUE])
     ELSE /\ Len(slabs) < MaxSlabs /\ nfail' = nfail
          \* the new slab is private to this thread until attached; one object is taken right away
          /\ slabs' = Append(slabs, [cls |-> th[t].c, free |-> Cap[th[t].c] - 1, inPartial |-> FALSE])
          /\ Set(t, [th[t] EXCEPT !.pc = "a_tree", !.slab = Len(slabs) + 1])
  /\ UNCHANGED <<blk, bucket, tree, stats>>

AllocTreeLock(t) ==
  /\ th[t].pc = "a_tree" /\ tree = -1
  /\ tree' = t
  /\ Set(t, [th[t] EXCEPT !.pc = "a_tree2"])
  /\ UNCHANGED <<slabs, blk, bucket, nfail, stats>>

AllocTreeUnlock(t) ==
  /\ th[t].pc = "a_tree2"
  /\ tree' = -1
  /\ Set(t, [th[t] EXCEPT !.pc = "a_relock"])
  /\ UNCHANGED <<slabs, blk, bucket, nfail, stats>>

AllocRelock(t) ==
  /\ th[t].pc = "a_relock" /\ bucket[th[t].c] = -1
  /\ bucket' = [bucket EXCEPT ![th[t].c] = t]
  /\ Set(t, [th[t] EXCEPT !.pc = "a_attach"])
  /\ UNCHANGED <<slabs, blk, tree, nfail, stats>>

\* attach the slab to the bucket, unlock (seam)
AllocAttach(t) ==
  /\ th[t].pc = "a_attach"
  /\ slabs' = [slabs EXCEPT ![th[t].slab].inPartial = TRUE]
  /\ blk' = [blk EXCEPT ![th[t].nb].slab = th[t].slab]
  /\ bucket' = [bucket EXCEPT ![th[t].c] = -1]
  /\ Set(t, [th[t] EXCEPT !.pc = "ret_ok"])
  /\ UNCHANGED <<tree, nfail, stats>>

\* allocate(large): first seam = map
AllocLargeStart(t, fail) ==
  /\ AllowLarge
  /\ th[t].pc = "idle" /\ th[t].ops < MaxOps /\ LiveCount < MaxLive /\ FreshBlock # 0
  /\ IF fail
     THEN /\ nfail < MaxFail /\ nfail' = nfail + 1
          /\ Set(t, [th[t] EXCEPT !.pc = "ret_null", !.op = "alloc", !.c = Large, !.ops = @ + 1, !.failed = TRUE, !.nb = FreshBlock])
     ELSE /\ nfail' = nfail
          /\ Set(t, [th[t] EXCEPT !.pc = "l_tree", !.op = "alloc", !.c = Large, !.ops = @ + 1, !.nb = FreshBlock])
  /\ blk' = [blk EXCEPT ![FreshBlock] = [state |-> "busy", cls |-> Large, slab |-> 0]]
  /\ UNCHANGED <<slabs, bucket, tree, stats>>

LargeTreeLock(t) ==
  /\ th[t].pc = "l_tree" /\ tree = -1
  /\ tree' = t /\ Set(t, [th[t] EXCEPT !.pc = "l_tree2"])
  /\ UNCHANGED <<slabs, blk, bucket, nfail, stats>>
LargeTreeUnlock(t) ==
  /\ th[t].pc = "l_tree2"
  /\ tree' = -1 /\ Set(t, [th[t] EXCEPT !.pc = "ret_ok"])
  /\ UNCHANGED <<slabs, blk, bucket, nfail, stats>>

\* a call returns (no seam of its own: folded into the thread's next step in the harness; here explicit
\* so that the block becomes visible to other threads exactly when the call has returned)
Return(t) ==
  /\ th[t].pc \in {"ret_ok", "ret_null", "ret_free"}
  /\ IF th[t].pc = "ret_ok" /\ th[t].op \in {"alloc"}
     THEN blk' = [blk EXCEPT ![th[t].nb].state = "live"] /\ stats' = Bump(th[t].c)
     ELSE IF th[t].pc = "ret_null" /\ th[t].op = "alloc"
     THEN blk' = [blk EXCEPT ![th[t].nb] = [state |-> "none", cls |-> 0, slab |-> 0]] /\ stats' = stats
     ELSE IF th[t].pc = "ret_null" /\ th[t].op = "realloc"
     THEN \* failed realloc: the new block does not exist, the source block is live again, untouched
          /\ blk' = [blk EXCEPT ![th[t].nb] = [state |-> "none", cls |-> 0, slab |-> 0], ![th[t].b].state = "live"]
          /\ stats' = Bump(blk[th[t].b].cls)
     ELSE IF th[t].pc = "ret_free" /\ th[t].op = "realloc"
     THEN blk' = [blk EXCEPT ![th[t].nb].state = "live"] /\ stats' = Bump(blk[th[t].nb].cls)
     ELSE blk' = blk /\ stats' = stats
  /\ Set(t, Done(t))
  /\ UNCHANGED <<slabs, bucket, tree, nfail>>

\* free(small block): first seam = bucket lock
FreeSmallStart(t, b) ==
  /\ th[t].pc = "idle" /\ th[t].ops < MaxOps
  /\ blk[b].state = "live" /\ blk[b].cls # Large
  /\ bucket[blk[b].cls] = -1
  /\ bucket' = [bucket EXCEPT ![blk[b].cls] = t]
  /\ blk' = [blk EXCEPT ![b].state = "busy"]
  /\ stats' = Drop(blk[b].cls)
  /\ Set(t, [th[t] EXCEPT !.pc = "f_locked", !.op = "free", !.c = blk[b].cls, !.b = b, !.ops = @ + 1])
  /\ UNCHANGED <<slabs, tree, nfail>>

FreeUnlock(t) ==
  /\ th[t].pc = "f_locked"
  /\ LET b == th[t].b
         s == blk[b].slab IN
     /\ slabs' = [slabs EXCEPT ![s].free = @ + 1, ![s].inPartial = TRUE]
     /\ blk' = [blk EXCEPT ![b] = [state |-> "none", cls |-> 0, slab |-> 0]]
  /\ bucket' = [bucket EXCEPT ![th[t].c] = -1]
  /\ Set(t, [th[t] EXCEPT !.pc = IF th[t].op = "realloc" THEN "ret_free" ELSE "ret_ok"])
  /\ UNCHANGED <<tree, nfail, stats>>

\* free(large block): tree lock, tree unlock, unmap
FreeLargeStart(t, b) ==
  /\ th[t].pc = "idle" /\ th[t].ops < MaxOps
  /\ blk[b].state = "live" /\ blk[b].cls = Large /\ tree = -1
  /\ tree' = t
  /\ blk' = [blk EXCEPT ![b].state = "busy"]
  /\ Set(t, [th[t] EXCEPT !.pc = "g_tree2", !.op = "free", !.c = Large, !.b = b, !.ops = @ + 1])
  /\ UNCHANGED <<slabs, bucket, nfail, stats>>
FreeLargeUnlock(t) ==
  /\ th[t].pc = "g_tree2"
  /\ tree' = -1 /\ Set(t, [th[t] EXCEPT !.pc = "g_unmap"])
  /\ UNCHANGED <<slabs, blk, bucket, nfail, stats>>
FreeLargeUnmap(t) ==
  /\ th[t].pc = "g_unmap"
  /\ blk' = [blk EXCEPT ![th[t].b] = [state |-> "none", cls |-> 0, slab |-> 0]]
  /\ Set(t, [th[t] EXCEPT !.pc = IF th[t].op = "realloc" THEN "ret_free" ELSE "ret_ok"])
  /\ UNCHANGED <<slabs, bucket, tree, nfail, stats>>

\* realloc(b, larger class c2): allocate(c2), copy, free(b).  The allocate part reuses the allocate
\* steps; when it has the new block the call continues with the free steps of the old one.
ReallocStart(t, b, c2) ==
  /\ AllowRealloc
  /\ th[t].pc = "idle" /\ th[t].ops < MaxOps /\ FreshBlock # 0
  /\ blk[b].state = "live" /\ blk[b].cls # Large /\ c2 \in Classes /\ c2 > blk[b].cls
  /\ bucket[c2] = -1
  /\ bucket' = [bucket EXCEPT ![c2] = t]
  /\ blk' = [blk EXCEPT ![b].state = "busy", ![FreshBlock] = [state |-> "busy", cls |-> c2, slab |-> 0]]
  /\ stats' = Drop(blk[b].cls)
  /\ Set(t, [th[t] EXCEPT !.pc = "a_locked", !.op = "realloc", !.c = c2, !.b = b, !.nb = FreshBlock, !.ops = @ + 1])
  /\ UNCHANGED <<slabs, tree, nfail>>

\* the allocate inside realloc succeeded: go on with free(old) - first seam: lock of the old block's bucket
ReallocFreeOld(t) ==
  /\ th[t].pc = "ret_ok" /\ th[t].op = "realloc"
  /\ bucket[blk[th[t].b].cls] = -1
  /\ bucket' = [bucket EXCEPT ![blk[th[t].b].cls] = t]
  /\ Set(t, [th[t] EXCEPT !.pc = "f_locked", !.c = blk[th[t].b].cls])
  /\ UNCHANGED <<slabs, blk, tree, nfail, stats>>

-----------------------------------------------------------------------------
Step(t) ==
  \/ \E c \in Classes : AllocSmallStart(t, c)
  \/ AllocUnlock(t) \/ AllocMap(t, FALSE) \/ AllocMap(t, TRUE) \/ AllocTreeLock(t) \/ AllocTreeUnlock(t)
  \/ AllocRelock(t) \/ AllocAttach(t)
  \/ AllocLargeStart(t, FALSE) \/ AllocLargeStart(t, TRUE) \/ LargeTreeLock(t) \/ LargeTreeUnlock(t)
  \/ (th[t].pc \in {"ret_null", "ret_free"} /\ Return(t))
  \/ (th[t].pc = "ret_ok" /\ th[t].op # "realloc" /\ Return(t))
  \/ ReallocFreeOld(t)
  \/ \E b \in 1..MaxBlocks : FreeSmallStart(t, b) \/ FreeLargeStart(t, b) \/ \E c2 \in Classes : ReallocStart(t, b, c2)
  \/ FreeUnlock(t) \/ FreeLargeUnlock(t) \/ FreeLargeUnmap(t)

AllIdleAndSpent == \A t \in Threads : th[t].pc = "idle"
Next == (\E t \in Threads : Step(t)) \/ (AllIdleAndSpent /\ UNCHANGED vars)
Spec == Init /\ [][Next]_vars
\* a started call keeps being scheduled; the mutexes are fair
FairSpec == Spec /\ \A t \in Threads : SF_vars(th[t].pc # "idle" /\ Step(t))

-----------------------------------------------------------------------------
Held(t) == {c \in Classes : bucket[c] = t} \cup (IF tree = t THEN {"tree"} ELSE {})

\* every slab's objects are either free or handed out to exactly one block (C01/C05: no double hand-out)
SlabAccounting ==
  \A s \in 1..Len(slabs) :
     LET out == Cardinality({b \in 1..MaxBlocks : blk[b].state # "none" /\ blk[b].slab = s}) IN
     \* a private (not yet attached) slab has handed one object to the thread constructing it
     slabs[s].free + out + (IF \E t \in Threads : th[t].slab = s /\ th[t].pc \in {"a_tree", "a_tree2", "a_relock", "a_attach"} THEN 1 ELSE 0) = Cap[slabs[s].cls]
FreeNonNegative == \A s \in 1..Len(slabs) : slabs[s].free >= 0 /\ slabs[s].free <= Cap[slabs[s].cls]
PartialExact == \A s \in 1..Len(slabs) : slabs[s].inPartial => slabs[s].free > 0
\* C05: the policy is called only while the thread holds none of the pool's locks
PolicyCalledWithoutLocks == \A t \in Threads : th[t].pc \in {"a_map", "g_unmap"} => Held(t) = {}
\* nothing is left locked when a call has returned
NothingLeftLocked == \A t \in Threads : th[t].pc = "idle" => Held(t) = {}
\* lock order: the tree mutex is only taken without a bucket mutex (no cycle is possible)
LockOrder == \A t \in Threads : tree = t => \A c \in Classes : bucket[c] # t
\* C02 (one thread): slabs of a class <= ceil(peak / Cap)
Footprint == Cardinality(Threads) = 1 =>
               \A c \in Classes : Cardinality({s \in 1..Len(slabs) : slabs[s].cls = c}) * Cap[c] < stats[c].peak + Cap[c]
               \/ \E t \in Threads : th[t].pc # "idle"
\* C04: a failed call leaves no trace: checked as "the thread that failed holds nothing and its block slot is free again"
FailureLeavesNothing == \A t \in Threads : th[t].pc = "ret_null" => Held(t) = {}

\* every call returns
EveryCallReturns == \A t \in Threads : (th[t].pc # "idle") ~> (th[t].pc = "idle")
=============================================================================

CONSTANTS
  Threads = {0}
  Classes = {3,4}
  Cap <- CapTiny
  MaxOps = 7
  MaxLive = 5
  MaxBlocks = 6
  MaxSlabs = 5
  MaxFail = 2
  AllowLarge = TRUE
  AllowRealloc = TRUE
INIT MCInit
NEXT MCNext
VIEW MCView
INVARIANTS SlabAccounting FreeNonNegative PartialExact PolicyCalledWithoutLocks NothingLeftLocked LockOrder Footprint FailureLeavesNothing
ACTION_CONSTRAINT Emit

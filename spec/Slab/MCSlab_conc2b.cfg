CONSTANTS
  Threads = {0,1}
  Classes = {3,4}
  Cap <- CapTiny
  MaxOps = 3
  MaxLive = 5
  MaxBlocks = 6
  MaxSlabs = 5
  MaxFail = 0
  AllowLarge = FALSE
  AllowRealloc = TRUE
INIT MCInit
NEXT MCNext
VIEW MCView
INVARIANTS SlabAccounting FreeNonNegative PartialExact PolicyCalledWithoutLocks NothingLeftLocked LockOrder Footprint FailureLeavesNothing


------------------------------ MODULE SlabTrace ------------------------------
(* Property-layer specification of frigg's slab_pool (properties C01-C05), checked *)
(* on traces recorded from the real pool.  It knows nothing about buckets, slabs or *)
(* free lists: it sees the API calls with their results, every callback the pool     *)
(* makes on its policy (map / unmap / poison / unpoison) and every mutex operation.  *)
(* Addresses are <<region id, offset>>; a region is what one successful map()        *)
(* returned.  Each guard names the property it belongs to.                           *)
EXTENDS Integers, Sequences, FiniteSets, TLC, TraceBase

VARIABLES cfg,        \* geometry of the execution (from Reset)
          mapped,     \* rid -> [len, cls]   regions obtained from map() and not yet returned; cls = size class or -1 (large)
          live,       \* <<rid, off>> -> [req, usable]   blocks handed out and not yet freed
          unp,        \* rid -> set of unpoisoned byte offsets (only when cfg.trackbytes = 1 and cfg.poison = 1)
          held,       \* t -> set of mutex names held by thread t
          holder,     \* mutex name -> thread (or absent)
          call,       \* t -> [op, n, p, failed, took (set of rids mapped in this call), gave (set of rids unmapped)]
          pages,      \* last value of the used-page counter seen
          acct,       \* rid -> pages charged for the region when it was taken (single-threaded executions)
          cls,        \* per size class: [cur, peak, slabs]
          l, nchk

svars == <<cfg, mapped, live, unp, held, holder, call, pages, acct, cls>>
tvars == <<svars, l, nchk>>

Threads == 0..(cfg.threads - 1)
Single == cfg.threads = 1

RECURSIVE Pow2Ceil(_, _)
Pow2Ceil(n, p) == IF p >= n THEN p ELSE Pow2Ceil(n, 2 * p)
Min2(a, b) == IF a < b THEN a ELSE b
Max2(a, b) == IF a < b THEN b ELSE a
AlignOf(n) == Min2(cfg.pagesize, Max2(8, Pow2Ceil(n, 1)))
Len1(n) == Max2(n, 1)

\* size class of a small request (index into cfg.sizes), -1 for a large one
RECURSIVE ClassFrom(_, _)
ClassFrom(n, i) == IF i > Len(cfg.sizes) THEN -1 ELSE IF n <= cfg.sizes[i] THEN i ELSE ClassFrom(n, i + 1)
ClassOf(n) == IF Len1(n) > cfg.maxSmall THEN -1 ELSE ClassFrom(Len1(n), 1)
CeilDiv(a, b) == (a + b - 1) \div b

Blocks == DOMAIN live
Overlap(a1, n1, a2, n2) == a1 < a2 + n2 /\ a2 < a1 + n1
\* where the allocator keeps its own bookkeeping inside a region: at the superblock-aligned start
\* of the usable part. For an aligned policy that is offset 0; an unaligned one aligns up inside
\* the reservation - the header is found as the first unpoison / by the block offsets, so the
\* spec only demands what every geometry shares: blocks lie behind one header-size from the
\* region start and do not overlap each other.
Inside(rid, off, n) == rid \in DOMAIN mapped /\ off >= 0 /\ off + n <= mapped[rid].len

NoNull(p) == p[1] # 0
EvP(ev) == IF Has(ev, "p") THEN ev.p ELSE <<0, 0>>

\* ---------------------------------------------------------------- guards
MapAccept(ev) ==
  /\ G("C05", "PolicyCalledWithoutPoolLocks", held[ev.t] = {})
  /\ G("C03", "MapInsideACall", call[ev.t].op # "")
  \* C02 footprint (single-threaded executions): a further slab of a class is mapped only when the
  \* blocks of that class no longer fit into the slabs mapped so far
  /\ G("C02", "SlabFootprintBoundedByPeak",
       LET c == call[ev.t]
           k == ClassOf(c.n) IN
       (ev.e = "MapOk" /\ Single /\ c.op \in {"alloc", "realloc"} /\ k # -1)
          => cls[k].slabs + 1 <= CeilDiv(Max2(cls[k].peak, cls[k].cur + 1), cfg.perSlab[k]))

UnmapAccept(ev) ==
  /\ G("C05", "PolicyCalledWithoutPoolLocks", held[ev.t] = {})
  /\ G("C03", "UnmapOnlyWhatWasMapped_ExactBaseAndLength", ev.rid \in DOMAIN mapped /\ ev.off = 0 /\ ev.exact = 1 /\ ev.len = mapped[ev.rid].len)
  /\ G("C03", "NeverUnmapUnderALiveBlock", \A b \in Blocks : b[1] # ev.rid)
  /\ G("C03", "OnlyLargeRegionsAreReturned", ev.rid \in DOMAIN mapped => mapped[ev.rid].cls = -1)

PoisonAccept(ev) ==
  /\ G("C03", "PoisonCallbackInsideMappedRegion", ev.rid \in DOMAIN mapped /\ ev.off + ev.n <= mapped[ev.rid].len)

\* a block handed out by allocate / realloc
FreshBlockOK(t, n, p, size, amod) ==
  LET rid == p[1]
      off == p[2] IN
  /\ G("C01", "InsideMemoryObtainedFromThePolicy", Inside(rid, off, Len1(n)))
  /\ G("C01", "ReportedSizeAtLeastRequested", size >= Len1(n))
  /\ G("C01", "UsableBytesInsideRegion", Inside(rid, off, size))
  /\ G("C01", "DisjointFromEveryLiveBlock", \A b \in Blocks : b[1] = rid => ~Overlap(off, size, b[2], live[b].usable))
  /\ G("C01", "DisjointFromAllocatorBookkeeping", rid \in DOMAIN mapped => ~Overlap(off, size, mapped[rid].hdr, mapped[rid].hdrlen))
  /\ G("C01", "AlignedToRequestRoundedUpToPowerOfTwo", amod % AlignOf(Len1(n)) = 0)
  /\ G("C03", "RequestedBytesUnpoisoned",
       (cfg.poison = 1 /\ cfg.trackbytes = 1 /\ rid \in DOMAIN unp) => \A i \in off..(off + Len1(n) - 1) : i \in unp[rid])

AcctOf(r) == IF r \in DOMAIN acct THEN acct[r] ELSE 0
GaveAcct(c) == IF c.gave = {} THEN 0 ELSE AcctOf(CHOOSE r \in c.gave : TRUE)

RetAccept(ev) ==
  LET c == call[ev.t] IN
  /\ G("C05", "NothingLeftLocked", held[ev.t] = {})
  /\ G("C02", "LiveBlockContentsUntouched", Has(ev, "corrupt") => ev.corrupt = <<>>)
  /\ CASE ev.op = "alloc" ->
            /\ G("C04", "NullOnlyWhenMapFailed", (~NoNull(ev.p)) = c.failed)
            /\ (~NoNull(ev.p) \/ FreshBlockOK(ev.t, c.n, ev.p, ev.size, ev.amod))
       [] ev.op \in {"free", "dealloc"} ->
            /\ G("C02", "FreeOfNullIsNoOp", ~NoNull(c.p) => (c.took = {} /\ c.gave = {}))
            /\ G("C03", "LargeFreeReturnsItsWholeReservation",
                 (NoNull(c.p) /\ c.cls = -1) => c.p[1] \in c.gave)
            /\ G("C03", "FreedSmallBlockPoisonedExceptLinkWord",
                 (Single /\ cfg.poison = 1 /\ cfg.trackbytes = 1 /\ NoNull(c.p) /\ c.cls # -1 /\ c.p[1] \in DOMAIN unp)
                    => \A i \in (c.p[2] + 8)..(c.p[2] + c.usable - 1) : i \notin unp[c.p[1]])
       [] ev.op = "realloc" ->
            IF ~NoNull(c.p) THEN      \* realloc(null, n) is allocate(n)
              /\ G("C04", "NullOnlyWhenMapFailed", (~NoNull(ev.p)) = c.failed)
              /\ (~NoNull(ev.p) \/ FreshBlockOK(ev.t, c.n, ev.p, ev.size, ev.amod))
            ELSE IF c.n = 0 THEN      \* realloc(p, 0) is free(p)
              G("C02", "ReallocToZeroFreesAndReturnsNull", ~NoNull(ev.p))
            ELSE IF ~NoNull(ev.p) THEN
              /\ G("C04", "ReallocFailsOnlyWhenMapFailed", c.failed)
              /\ G("C04", "FailedReallocKeepsSourceBlock", Has(ev, "src_ok") /\ ev.src_ok = 1)
            ELSE IF ev.p = c.p THEN   \* stayed in place
              /\ G("C02", "InPlaceOnlyIfItFits", c.n <= c.usable)
              /\ G("C02", "PrefixPreserved", ev.prefix_ok = 1)
              /\ G("C01", "ReportedSizeStable", ev.size = c.usable)
              \* what C01 says of every pointer realloc returns holds for one that stayed in place, too
              /\ G("C01", "ReportedSizeAtLeastRequested", ev.size >= Len1(c.n))
              /\ G("C01", "InsideMemoryObtainedFromThePolicy", Inside(ev.p[1], ev.p[2], Len1(c.n)))
              /\ G("C01", "AlignedToRequestRoundedUpToPowerOfTwo", ev.amod % AlignOf(Len1(c.n)) = 0)
              /\ G("C03", "RequestedBytesUnpoisoned",
                   (cfg.poison = 1 /\ cfg.trackbytes = 1 /\ ev.p[1] \in DOMAIN unp) => \A i \in ev.p[2]..(ev.p[2] + c.n - 1) : i \in unp[ev.p[1]])
            ELSE                      \* moved
              /\ G("C02", "PrefixPreserved", ev.prefix_ok = 1)
              /\ FreshBlockOK(ev.t, c.n, ev.p, ev.size, ev.amod)
       [] ev.op = "getsize" ->
            G("C01", "ReportedSizeStable", (NoNull(ev.p) /\ ev.p \in Blocks) => ev.size = live[ev.p].usable)
       [] OTHER -> G("C01", "KnownCall", FALSE)
  \* page accounting (single-threaded executions): up by a positive amount per region taken, down by
  \* exactly the charged amount per region returned, unchanged otherwise
  /\ G("C03", "PageCounterNeverUnderflows", ev.pages >= 0)
  /\ G("C03", "PageCounterChangesOnlyWithRegions",
       Single => (IF c.took = {} THEN ev.pages = pages - GaveAcct(c)
                  ELSE ev.pages - pages + GaveAcct(c) > 0))
  /\ G("C04", "FailedCallLeaksNothingIntoAccounting", (Single /\ c.failed /\ ~NoNull(ev.p) /\ c.gave = {}) => ev.pages = pages)

Accepts(ev) ==
  CASE ev.e = "Call" ->
         /\ G("C05", "OneCallPerThread", call[ev.t].op = "")
         /\ G("C02", "FreeOnlyLiveBlocks", (ev.op \in {"free", "dealloc", "realloc"} /\ NoNull(EvP(ev))) => EvP(ev) \in Blocks)
    [] ev.e = "Lock" ->
         /\ G("C05", "MutualExclusionOfPoolLocks", ev.m \notin DOMAIN holder)
    [] ev.e = "Unlock" ->
         /\ G("C05", "UnlockByHolder", ev.held = 1 /\ ev.m \in held[ev.t])
    [] ev.e = "MapOk" -> MapAccept(ev)
    [] ev.e = "MapFail" -> MapAccept(ev)
    [] ev.e = "Unmap" -> UnmapAccept(ev)
    [] ev.e \in {"Poison", "Unpoison", "UnpoisonExpand"} -> PoisonAccept(ev)
    [] ev.e = "Ret" -> RetAccept(ev)
    [] ev.e = "ThreadDone" -> TRUE
    [] ev.e = "End" ->
         /\ G("C05", "EveryCallReturned", ev.complete = 1 => \A t \in Threads : call[t].op = "" /\ held[t] = {})
         /\ G("C02", "LiveBlockContentsUntouched", Has(ev, "corrupt") => ev.corrupt = <<>>)
         /\ G("C03", "OnlySlabMemoryRemainsWhenNoLargeBlockLives",
              (ev.complete = 1 /\ \A b \in Blocks : mapped[b[1]].cls # -1) => \A r \in DOMAIN mapped : mapped[r].cls # -1)
    [] ev.e = "stall" -> G("C05", "NoCallBlocksForever", FALSE)
    [] ev.e = "deadlock" -> G("C05", "NoSelfDeadlock", FALSE)
    [] ev.e = "hang" -> G("C05", "NoCallBlocksForever", FALSE)
    \* a crash or assertion inside a call whose map() failed is a failure to tolerate that (C04);
    \* otherwise the pool touched memory it must not touch (C03) / stopped in a legal state (C01)
    [] ev.e = "panic" -> IF \E t \in Threads : call[t].failed THEN G("C04", "SurvivesMapFailure_NoPanic", FALSE)
                         ELSE G("C01", "NoPanicInLegalState", FALSE)
    [] ev.e = "crash" -> IF \E t \in Threads : call[t].failed THEN G("C04", "SurvivesMapFailure_NoCrash", FALSE)
                         ELSE G("C03", "PoolNeverTouchesPoisonedOrUnmappedMemory_NoCrash", FALSE)
    [] OTHER -> G("C01", "UnmatchableEvent", FALSE)

\* ---------------------------------------------------------------- effects
NoCall == [op |-> "", n |-> 0, p |-> <<0, 0>>, failed |-> FALSE, took |-> {}, gave |-> {}, usable |-> 0, cls |-> 0]
U(xs) == UNCHANGED xs

Bytes(off, n) == off..(off + n - 1)

AddLive(p, n, size) == (p :> [req |-> n, usable |-> size]) @@ live
DropLive(p) == [b \in Blocks \ {p} |-> live[b]]

ClsAfterAlloc(k) == IF k = -1 THEN cls
                    ELSE [cls EXCEPT ![k].cur = @ + 1, ![k].peak = Max2(@, cls[k].cur + 1)]
ClsAfterFree(k) == IF k = -1 THEN cls ELSE [cls EXCEPT ![k].cur = @ - 1]
ClassOfBlock(p) == IF p[1] \in DOMAIN mapped THEN mapped[p[1]].cls ELSE -1

Apply(ev) ==
  CASE ev.e = "Call" ->
         /\ call' = [call EXCEPT ![ev.t] = [NoCall EXCEPT !.op = ev.op, !.n = ev.n, !.p = EvP(ev),
                                                        !.usable = IF EvP(ev) \in Blocks THEN live[EvP(ev)].usable ELSE 0,
                                                        !.cls = IF NoNull(EvP(ev)) THEN ClassOfBlock(EvP(ev)) ELSE 0]]
         \* a block being freed / reallocated is in limbo from the call event on
         /\ live' = IF ev.op \in {"free", "dealloc", "realloc"} /\ EvP(ev) \in Blocks THEN DropLive(EvP(ev)) ELSE live
         /\ cls' = IF ev.op \in {"free", "dealloc", "realloc"} /\ EvP(ev) \in Blocks THEN ClsAfterFree(ClassOfBlock(EvP(ev))) ELSE cls
         /\ U(<<cfg, mapped, unp, held, holder, pages, acct>>)
    [] ev.e = "Lock" ->
         /\ held' = [held EXCEPT ![ev.t] = @ \cup {ev.m}]
         /\ holder' = (ev.m :> ev.t) @@ holder
         /\ U(<<cfg, mapped, live, unp, call, pages, acct, cls>>)
    [] ev.e = "Unlock" ->
         /\ held' = [held EXCEPT ![ev.t] = @ \ {ev.m}]
         /\ holder' = [m \in DOMAIN holder \ {ev.m} |-> holder[m]]
         /\ U(<<cfg, mapped, live, unp, call, pages, acct, cls>>)
    [] ev.e = "MapOk" ->
         LET c == call[ev.t]
             k == IF c.op \in {"alloc", "realloc"} THEN ClassOf(c.n) ELSE -1 IN
         /\ mapped' = (ev.rid :> [len |-> ev.len, cls |-> k, hdr |-> ev.sboff,
                                   hdrlen |-> IF k = -1 THEN cfg.hdrLarge ELSE cfg.hdrSlab]) @@ mapped
         /\ unp' = IF cfg.trackbytes = 1 THEN (ev.rid :> {}) @@ unp ELSE unp
         /\ call' = [call EXCEPT ![ev.t].took = @ \cup {ev.rid}]
         /\ cls' = IF k = -1 THEN cls ELSE [cls EXCEPT ![k].slabs = @ + 1]
         /\ U(<<cfg, live, held, holder, pages, acct>>)
    [] ev.e = "MapFail" ->
         /\ call' = [call EXCEPT ![ev.t].failed = TRUE]
         /\ U(<<cfg, mapped, live, unp, held, holder, pages, acct, cls>>)
    [] ev.e = "Unmap" ->
         /\ mapped' = [r \in DOMAIN mapped \ {ev.rid} |-> mapped[r]]
         /\ unp' = [r \in DOMAIN unp \ {ev.rid} |-> unp[r]]
         /\ call' = [call EXCEPT ![ev.t].gave = @ \cup {ev.rid}]
         /\ U(<<cfg, live, held, holder, pages, acct, cls>>)
    [] ev.e = "Poison" ->
         /\ unp' = IF cfg.trackbytes = 1 THEN [unp EXCEPT ![ev.rid] = @ \ Bytes(ev.off, ev.n)] ELSE unp
         /\ U(<<cfg, mapped, live, held, holder, call, pages, acct, cls>>)
    [] ev.e \in {"Unpoison", "UnpoisonExpand"} ->
         /\ unp' = IF cfg.trackbytes = 1 THEN [unp EXCEPT ![ev.rid] = @ \cup Bytes(ev.off, ev.n)] ELSE unp
         /\ U(<<cfg, mapped, live, held, holder, call, pages, acct, cls>>)
    [] ev.e = "Ret" ->
         LET c == call[ev.t]
             got == ev.op \in {"alloc", "realloc"} /\ NoNull(ev.p)
             kept == ev.op = "realloc" /\ ~NoNull(ev.p) /\ NoNull(c.p) /\ c.n # 0   \* failed realloc keeps its source
             live1 == IF got THEN AddLive(ev.p, IF ev.op = "realloc" /\ ~NoNull(c.p) THEN c.n ELSE c.n, ev.size)
                      ELSE IF kept THEN AddLive(c.p, c.n, c.usable) ELSE live
             k == IF got THEN ClassOfBlock(ev.p) ELSE IF kept THEN c.cls ELSE -1 IN
         /\ live' = live1
         /\ cls' = IF got \/ kept THEN ClsAfterAlloc(k) ELSE cls
         /\ acct' = IF Single /\ Cardinality(c.took) = 1
                    THEN ((CHOOSE r \in c.took : TRUE) :> (ev.pages - pages + GaveAcct(c))) @@ acct ELSE acct
         /\ pages' = ev.pages
         /\ call' = [call EXCEPT ![ev.t] = NoCall]
         /\ U(<<cfg, mapped, unp, held, holder>>)
    [] OTHER -> U(svars)

ResetTo(ev) ==
  /\ cfg' = ev
  /\ mapped' = <<>> /\ live' = <<>> /\ unp' = <<>> /\ acct' = <<>> /\ holder' = <<>>
  /\ held' = [t \in 0..(ev.threads - 1) |-> {}]
  /\ call' = [t \in 0..(ev.threads - 1) |-> NoCall]
  /\ pages' = 0
  /\ cls' = [k \in 1..Len(ev.sizes) |-> [cur |-> 0, peak |-> 0, slabs |-> 0]]

TraceInit ==
  /\ cfg = [threads |-> 1] /\ mapped = <<>> /\ live = <<>> /\ unp = <<>> /\ held = <<>> /\ holder = <<>>
  /\ call = <<>> /\ pages = 0 /\ acct = <<>> /\ cls = <<>>
  /\ l = 1 /\ nchk = 0 /\ InitDiag

TraceNext ==
  \/ /\ l <= NLines
     /\ LET ev == TraceLog[l] IN
        IF ev.e = "Reset" THEN ResetTo(ev) /\ l' = l + 1 /\ nchk' = nchk
        ELSE IF Judged(Accepts(ev))
        THEN Apply(ev) /\ l' = l + 1 /\ nchk' = nchk + 1
        ELSE ReportReject(l) /\ l' = NextResetFrom(l + 1) /\ UNCHANGED <<svars, nchk>>
  \/ /\ l = NLines + 1 /\ ReportDone(nchk) /\ l' = l + 1 /\ UNCHANGED <<svars, nchk>>
=============================================================================

CONSTANTS
  Threads = {0,1,2}
  Classes = {4}
  Cap <- CapTiny
  MaxOps = 2
  MaxLive = 5
  MaxBlocks = 6
  MaxSlabs = 5
  MaxFail = 0
  AllowLarge = FALSE
  AllowRealloc = FALSE
INIT MCInit
NEXT MCNext
VIEW MCView
INVARIANTS SlabAccounting FreeNonNegative PartialExact PolicyCalledWithoutLocks NothingLeftLocked LockOrder Footprint FailureLeavesNothing


------------------------------- MODULE MCSlab -------------------------------
EXTENDS SlabPool, Json
\* objects per slab of the tiny geometry (pagesize 64, slabsize 256): classes 8,16,32,64 bytes
CapTiny == <<19, 9, 4, 2>>

VARIABLE hist
MCInit == Init /\ hist = <<>>
H(t, op, c, b, fail, ret) == hist' = Append(hist, [t |-> t, op |-> op, c |-> c, b |-> b, fail |-> fail, ret |-> ret,
                                                  nb |-> IF op = "realloc" THEN FreshBlock ELSE 0])
MCNext ==
  \/ (AllIdleAndSpent /\ UNCHANGED vars /\ hist' = hist)
  \/ \E t \in Threads :
    \/ \E c \in Classes : AllocSmallStart(t, c) /\ H(t, "alloc", c, FreshBlock, 0, 0)
    \/ AllocUnlock(t) /\ H(t, "", 0, 0, 0, 0)
    \/ AllocMap(t, FALSE) /\ H(t, "", 0, 0, 0, 0)
    \/ AllocMap(t, TRUE) /\ H(t, "", 0, 0, 1, 0)
    \/ AllocTreeLock(t) /\ H(t, "", 0, 0, 0, 0)
    \/ AllocTreeUnlock(t) /\ H(t, "", 0, 0, 0, 0)
    \/ AllocRelock(t) /\ H(t, "", 0, 0, 0, 0)
    \/ AllocAttach(t) /\ H(t, "", 0, 0, 0, 0)
    \/ AllocLargeStart(t, FALSE) /\ H(t, "alloc", 0, FreshBlock, 0, 0)
    \/ AllocLargeStart(t, TRUE) /\ H(t, "alloc", 0, FreshBlock, 1, 0)
    \/ LargeTreeLock(t) /\ H(t, "", 0, 0, 0, 0)
    \/ LargeTreeUnlock(t) /\ H(t, "", 0, 0, 0, 0)
    \/ (th[t].pc \in {"ret_null", "ret_free"} /\ Return(t) /\ H(t, "", 0, 0, 0, 1))
    \/ (th[t].pc = "ret_ok" /\ th[t].op # "realloc" /\ Return(t) /\ H(t, "", 0, 0, 0, 1))
    \/ ReallocFreeOld(t) /\ H(t, "", 0, 0, 0, 0)
    \/ \E b \in 1..MaxBlocks :
         \/ FreeSmallStart(t, b) /\ H(t, "free", 0, b, 0, 0)
         \/ FreeLargeStart(t, b) /\ H(t, "free", 0, b, 0, 0)
         \/ \E c2 \in Classes : ReallocStart(t, b, c2) /\ H(t, "realloc", c2, b, 0, 0)
    \/ FreeUnlock(t) /\ H(t, "", 0, 0, 0, 0)
    \/ FreeLargeUnlock(t) /\ H(t, "", 0, 0, 0, 0)
    \/ FreeLargeUnmap(t) /\ H(t, "", 0, 0, 0, 0)
MCView == vars
Emit == hist' = hist \/ PrintT(<<"H", ToJson(hist')>>)
=============================================================================

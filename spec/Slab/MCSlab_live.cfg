CONSTANTS
  Threads = {0,1}
  Classes = {4}
  Cap <- CapLive
  MaxOps = 2
  MaxLive = 4
  MaxBlocks = 4
  MaxSlabs = 3
  MaxFail = 1
  AllowLarge = TRUE
  AllowRealloc = FALSE
SPECIFICATION FairSpec
PROPERTY EveryCallReturns

CONSTANTS
  Threads = {0,1}
  Classes = {4}
  Cap <- CapTiny
  MaxOps = 3
  MaxLive = 5
  MaxBlocks = 6
  MaxSlabs = 5
  MaxFail = 1
  AllowLarge = TRUE
  AllowRealloc = FALSE
INIT MCInit
NEXT MCNext
VIEW MCView
INVARIANTS SlabAccounting FreeNonNegative PartialExact PolicyCalledWithoutLocks NothingLeftLocked LockOrder Footprint FailureLeavesNothing
ACTION_CONSTRAINT Emit

INIT TraceInit
NEXT TraceNext
INVARIANT InRange
CHECK_DEADLOCK FALSE

------------------------------- MODULE Bitset -------------------------------
(* Generator model for C18 (bitset part): the closed graph of two bitsets of N bits   *)
(* under every operation, for small N; larger N are driven by the harness and judged   *)
(* by the same operations in BitsetTrace.tla.                                          *)
EXTENDS Integers, Sequences, FiniteSets, TLC, BitsetOps, Json
CONSTANTS N, MaxShift
VARIABLES st, hist
vars == <<st>>
Pos == Universe(N)
Ops == [name : {"set", "ref_assign_bool"}, p : Pos, q : {0}, k : {0, 1}, bits : {{}}]
       \cup [name : {"reset", "flip", "ref_flip", "ref_not"}, p : Pos, q : {0}, k : {0}, bits : {{}}]
       \cup [name : {"ref_assign_ref"}, p : Pos, q : Pos, k : {0}, bits : {{}}]
       \cup [name : {"set_all", "reset_all", "flip_all", "and", "or", "xor", "not", "swap_roles"}, p : {0}, q : {0}, k : {0}, bits : {{}}]
       \cup [name : {"shl", "shr"}, p : {0}, q : {0}, k : 0..MaxShift, bits : {{}}]
       \cup [name : {"construct", "construct_b"}, p : {0}, q : {0}, k : {0}, bits : SUBSET (0..(N + 1))]
SetToSeq(S) == CHOOSE s \in [1..Cardinality(S) -> S] : \A i, j \in 1..Cardinality(S) : i < j => s[i] < s[j]
Init == st = <<{}, {}>> /\ hist = <<>>
Next == \E op \in Ops : st' = Eff(N, op, st) /\ hist' = Append(hist, [name |-> op.name, p |-> op.p, q |-> op.q, k |-> op.k, bits |-> SetToSeq(op.bits)])
View == vars
Emit == PrintT(<<"H", ToJson(hist')>>)
\* bits at or beyond N never appear
InRange == st[1] \subseteq Pos /\ st[2] \subseteq Pos
=============================================================================

------------------------------ MODULE BitsetOps ------------------------------
(* Reference meaning of std::bitset<N> operations (property C18) on a bitset         *)
(* represented as the set of its set positions (a subset of 0..N-1).                  *)
(* A 64-bit constructor argument is given as the set of its one-bits.                 *)
(* Constant-free: N is a parameter, so one text serves every N.                       *)
EXTENDS Integers, Sequences, FiniteSets

Universe(N) == 0..(N - 1)
FromBits(N, bits) == bits \cap Universe(N)
Shl(N, S, k) == {p + k : p \in S} \cap Universe(N)
Shr(N, S, k) == {p - k : p \in {q \in S : q >= k}}
Not(N, S) == Universe(N) \ S
SetBit(S, p, v) == IF v = 1 THEN S \cup {p} ELSE S \ {p}
Test(S, p) == IF p \in S THEN 1 ELSE 0

\* op = [name, p, q, k, bits]; st = <<A, B>>; the operation acts on A (B is the right-hand operand)
Eff(N, op, st) ==
  LET A == st[1]
      Bs == st[2] IN
  CASE op.name = "construct" -> <<FromBits(N, op.bits), Bs>>
    [] op.name = "construct_b" -> <<A, FromBits(N, op.bits)>>
    [] op.name = "set" -> <<SetBit(A, op.p, op.k), Bs>>
    [] op.name = "set_all" -> <<Universe(N), Bs>>
    [] op.name = "reset" -> <<A \ {op.p}, Bs>>
    [] op.name = "reset_all" -> <<{}, Bs>>
    [] op.name = "flip" -> <<SetBit(A, op.p, 1 - Test(A, op.p)), Bs>>
    [] op.name = "flip_all" -> <<Not(N, A), Bs>>
    [] op.name = "ref_assign_bool" -> <<SetBit(A, op.p, op.k), Bs>>          \* a[p] = bool
    [] op.name = "ref_assign_ref" -> <<SetBit(A, op.p, Test(A, op.q)), Bs>>  \* a[p] = a[q]
    [] op.name = "ref_flip" -> <<SetBit(A, op.p, 1 - Test(A, op.p)), Bs>>   \* a[p].flip()
    [] op.name = "ref_not" -> st                                            \* ~a[p] is an observation
    [] op.name = "and" -> <<A \cap Bs, Bs>>
    [] op.name = "or" -> <<A \cup Bs, Bs>>
    [] op.name = "xor" -> <<(A \ Bs) \cup (Bs \ A), Bs>>
    [] op.name = "not" -> <<Not(N, A), Bs>>
    [] op.name = "shl" -> <<Shl(N, A, op.k), Bs>>
    [] op.name = "shr" -> <<Shr(N, A, op.k), Bs>>
    [] op.name = "swap_roles" -> <<Bs, A>>
Result(N, op, st) == IF op.name = "ref_not" THEN 1 - Test(st[1], op.p) ELSE 0
B(b) == IF b THEN 1 ELSE 0
=============================================================================

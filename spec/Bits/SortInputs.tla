----------------------------- MODULE SortInputs -----------------------------
(* Input space for insertion_sort (C18): every array over Values up to MaxLen.     *)
EXTENDS Integers, Sequences, FiniteSets, TLC, Json
CONSTANTS Values, MaxLen
VARIABLES arr
RECURSIVE Arrays(_)
Arrays(n) == IF n = 0 THEN {<<>>} ELSE LET S == Arrays(n - 1) IN S \cup {Append(x, v) : x \in {y \in S : Len(y) = n - 1}, v \in Values}
Init == arr \in Arrays(MaxLen)
Next == UNCHANGED arr
EmitInput == PrintT(<<"H", ToJson([in |-> arr])>>)
=============================================================================

CONSTANTS
  N = 1
  MaxShift = 3
INIT Init
NEXT Next
VIEW View
INVARIANT InRange
ACTION_CONSTRAINT Emit
CHECK_DEADLOCK FALSE

CONSTANTS
  N = 2
  MaxShift = 4
INIT Init
NEXT Next
VIEW View
INVARIANT InRange
ACTION_CONSTRAINT Emit
CHECK_DEADLOCK FALSE

CONSTANTS
  N = 3
  MaxShift = 5
INIT Init
NEXT Next
VIEW View
INVARIANT InRange
ACTION_CONSTRAINT Emit
CHECK_DEADLOCK FALSE

CONSTANTS
  Values = {1,2,3}
  MaxLen = 6
INIT Init
NEXT Next
CONSTRAINT EmitInput
CHECK_DEADLOCK FALSE

------------------------------ MODULE BitsTrace ------------------------------
(* Trace specification for C18: bitset<N> against the reference set semantics for  *)
(* whatever N the execution uses; array and insertion_sort against sequences.        *)
(* The PRNG clause is an auxiliary differential outside the TLA+ claim (DESIGN.md     *)
(* section 7): its event only has to report zero mismatches.                          *)
EXTENDS Integers, Sequences, FiniteSets, TLC, BitsetOps, TraceBase

VARIABLES N, st, l, nchk
svars == <<N, st>>
tvars == <<svars, l, nchk>>

ToSet(q) == {q[i] : i \in 1..Len(q)}
OpOf(ev) == [name |-> ev.name, p |-> ev.p, q |-> ev.q, k |-> ev.k, bits |-> ToSet(ev.bits)]

IsPerm(a, b) == Len(a) = Len(b) /\ \A v \in ToSet(a) \cup ToSet(b) :
                   Cardinality({i \in 1..Len(a) : a[i] = v}) = Cardinality({i \in 1..Len(b) : b[i] = v})
Comp(c, x, y) == CASE c = 0 -> x < y [] c = 1 -> x > y [] OTHER -> (x \div 2) < (y \div 2)

Accepts(ev) ==
  CASE ev.e = "Op" ->
         LET op == OpOf(ev)
             nx == Eff(N, op, st) IN
         /\ G("C18", "BitsAgreeWithStdBitset", ToSet(ev.a) = nx[1] /\ Len(ev.a) = Cardinality(nx[1]))
         /\ G("C18", "OperandUnchanged", ToSet(ev.b) = nx[2])
         /\ G("C18", "RefNotResult", ev.name = "ref_not" => ev.res = Result(N, op, st))
         /\ G("C18", "CountAnyAllNone", /\ ev.count = Cardinality(nx[1]) /\ ev.any = B(nx[1] # {})
                                         /\ ev.all = B(nx[1] = Universe(N)) /\ ev.none = B(nx[1] = {}) /\ ev.size = N)
         /\ G("C18", "Equality", ev.eq = B(nx[1] = nx[2]))
         /\ G("C18", "NoBitAtOrBeyondN", ev.tail = 1)
         /\ G("C18", "NonMutatingOperatorsAgree", ev.binops = 1)
    [] ev.e = "ArrayObs" ->
         /\ G("C18", "ArrayIndexingAndIteration", ev.idx = ev.vals /\ ev.iter = ev.vals /\ ev.size = Len(ev.vals))
         /\ G("C18", "ArrayFrontBack", /\ ev.front = ev.vals[1] /\ ev.back = ev.vals[Len(ev.vals)]
                                        /\ ev.hfront = ev.hvals[1] /\ ev.hback = ev.hvals[Len(ev.hvals)]
                                        /\ ev.onefront = ev.oneback)
         /\ G("C18", "ArrayConstAccessorsAgree", /\ ev.cidx = ev.vals /\ ev.citer = ev.vals /\ ev.cciter = ev.vals
                                                  /\ ev.cfront = ev.vals[1] /\ ev.cback = ev.vals[Len(ev.vals)]
                                                  /\ ev.chfront = ev.hvals[1] /\ ev.chback = ev.hvals[Len(ev.hvals)]
                                                  /\ ev.cdata0 = ev.vals[1] /\ ev.data0 = ev.vals[1] /\ ev.cget3 = ev.vals[4]
                                                  /\ ev.maxsize = Len(ev.vals) /\ ev.empty = 0)
         /\ G("C18", "ArrayComparison", ev.eq_same = 1 /\ ev.eq_diff = 0)
         /\ G("C18", "ArraySwapExchangesContents", ev.swap_ok = 1)
         /\ G("C18", "ArrayConcatAndGet", ev.cat = ev.catexp /\ ev.get0 = ev.vals[1] /\ ev.get3 = ev.vals[4])
    [] ev.e = "Sort" ->
         /\ G("C18", "SortLeavesAPermutation", IsPerm(ev["in"], ev.out))
         /\ G("C18", "NoEarlierElementComparesBeforeALater", \A i \in 1..Len(ev.out) : \A j \in (i + 1)..Len(ev.out) : ~Comp(ev.cmp, ev.out[i], ev.out[j]))
    [] ev.e = "Prng" -> G("C18", "PrngAuxiliaryDifferential", ev.mt_mismatch = 0 /\ ev.pcg_mismatch = 0 /\ ev.bound_violations = 0)
    [] ev.e = "panic" -> G("C18", "NoPanicInLegalState", FALSE)
    [] ev.e = "crash" -> G("C18", "NoAccessOutsideTheObject_NoCrash", FALSE)
    [] ev.e = "hang" -> G("C18", "EveryCallReturns", FALSE)
    [] OTHER -> G("C18", "UnmatchableEvent", FALSE)

Apply(ev) == IF ev.e = "Op" THEN st' = Eff(N, OpOf(ev), st) /\ N' = N ELSE UNCHANGED svars
TraceInit == N = 0 /\ st = <<{}, {}>> /\ l = 1 /\ nchk = 0 /\ InitDiag
TraceNext ==
  \/ /\ l <= NLines
     /\ LET ev == TraceLog[l] IN
        IF ev.e = "Reset" THEN N' = ev.N /\ st' = <<{}, {}>> /\ l' = l + 1 /\ nchk' = nchk
        ELSE IF Accepts(ev) THEN Apply(ev) /\ l' = l + 1 /\ nchk' = nchk + 1
        ELSE ReportReject(l) /\ l' = NextResetFrom(l + 1) /\ UNCHANGED <<svars, nchk>>
  \/ /\ l = NLines + 1 /\ ReportDone(nchk) /\ l' = l + 1 /\ UNCHANGED <<svars, nchk>>
InRange == N = 0 \/ (st[1] \subseteq Universe(N) /\ st[2] \subseteq Universe(N))
=============================================================================

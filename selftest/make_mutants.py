#!/usr/bin/env python3
"""Source of selftest/mutants.jsonl: hand-written text-replacement mutants of /repo/include/frg (one or more [old, new]
pairs each; every `old` must occur exactly once unless "nth" says otherwise).  Kept as Python so that the tabs and
newlines of the C++ fragments stay readable.  Run it to regenerate mutants.jsonl; tools/selftest.py consumes that."""
import json, os
M = []
def m(id, kind, checks, header, pairs, note):
    M.append(dict(id=id, kind=kind, checks=checks, header=header, pairs=pairs, note=note))

# ---- slab ------------------------------------------------------------------------------------------------------
m("C01-overhead-not-rounded", "breaking", ["C01"], "slab.hpp",
  [["while(overhead < sizeof(slab_frame)) // FIXME.", "while(overhead + item_size < sizeof(slab_frame)) // FIXME."]],
  "slab header overhead one item short: first block overlaps the slab_frame")
m("C01-carve-one-past", "breaking", ["C01", "C03"], "slab.hpp",
  [["for(size_t off = 0; off < slb->length; off += item_size) {", "for(size_t off = 0; off <= slb->length - 1 + item_size; off += item_size) {"]],
  "carving loop produces one block beyond the slab")
m("C02-head-not-advanced", "breaking", ["C02"], "slab.hpp",
  [["bkt->head_slb = bkt->partial_tree.first();", "bkt->head_slb = nullptr;"]],
  "after the head slab fills up the other partial slabs are forgotten: fresh slabs are mapped although free blocks exist")
m("C03-unmap-wrong-length", "breaking", ["C03"], "slab.hpp",
  [["_plcy.unmap(sb_base, sb_reservation);", "_plcy.unmap(sb_base, obj_size);"]],
  "free_huge_ unmaps the object length instead of the reservation")
m("C03-used-pages-without-padding", "breaking", ["C03"], "slab.hpp",
  [["_usedPages -= (sup->length + huge_padding) / page_size;", "_usedPages -= sup->length / page_size;"]],
  "page accounting drifts on every huge free")
m("C03-unpoison-too-short", "breaking", ["C03"], "slab.hpp",
  [["\t\t\t_plcy.unpoison(object, length);", "\t\t\t_plcy.unpoison(object, sizeof(freelist));"]],
  "allocate unpoisons only the freelist header of the block it hands out")
m("C04-no-null-check-after-construct-slab", "breaking", ["C04"], "slab.hpp",
  [["\t\t\tauto slb = _construct_slab(index);\n\t\t\tif(!slb)\n\t\t\t\treturn nullptr;\n", "\t\t\tauto slb = _construct_slab(index);\n"]],
  "map failure while building a slab is dereferenced")
m("C04-realloc-no-null-check", "breaking", ["C04"], "slab.hpp",
  [["\tvoid *new_p = allocate(new_size);\n\tif(!new_p)\n\t\treturn nullptr;\n", "\tvoid *new_p = allocate(new_size);\n"]],
  "copying realloc does not survive a failed allocation")
m("C05-construct-slab-under-bucket-lock", "breaking", ["C05"], "slab.hpp",
  [["\t\t\t// Call into the Policy without holding locks.\n\t\t\tbucket_guard.unlock();\n", "\t\t\t// (lock kept)\n"],
   ["\t\t\t// Finally, re-lock the bucket to attach the new slab.\n\t\t\tbucket_guard.lock();\n", ""]],
  "policy map() called with the bucket mutex held")
m("C05-free-without-bucket-lock", "breaking", ["C05"], "slab.hpp",
  [["\t\tunique_lock<Mutex> bucket_guard(bkt->bucket_mutex);\n\t\t{\n\t\t\tbool reinsert_into_bucket", "\t\t{\n\t\t\tbool reinsert_into_bucket"]],
  "free_in_slab_ updates the free list and the partial tree without the bucket mutex")
m("slab-benign-assert-removed", "benign", ["C01", "C02", "C05"], "slab.hpp",
  [["\t\t\tFRG_ASSERT(slb->available);\n\t\t\tbkt->partial_tree.insert(slb);", "\t\t\tbkt->partial_tree.insert(slb);"]],
  "a redundant assertion removed")
m("slab-benign-head-tie", "benign", ["C02"], "slab.hpp",
  [["\t\t\tbkt->partial_tree.insert(slb);\n\t\t\tif(!bkt->head_slb || slb->address < bkt->head_slb->address)\n\t\t\t\tbkt->head_slb = slb;\n\t\t}\n\n\t\tbucket_guard.unlock();",
    "\t\t\tbkt->partial_tree.insert(slb);\n\t\t\tif(!bkt->head_slb || slb->address <= bkt->head_slb->address)\n\t\t\t\tbkt->head_slb = slb;\n\t\t}\n\n\t\tbucket_guard.unlock();"]],
  "equivalent comparison")

# ---- rbtree / interval tree ---------------------------------------------------------------------------------------
m("C06-replace-forgets-pred-succ-link", "breaking", ["C06"], "rbtree.hpp",
  [["\t\tif(predecessor(node))\n\t\t\th(predecessor(node))->successor = replacement;\n", ""]],
  "replace_node leaves the predecessor's successor link pointing at the removed node")
m("C06-hook-not-reset", "breaking", ["C06"], "rbtree.hpp",
  [["\t\th(node)->predecessor = nullptr;\n\t\th(node)->successor = nullptr;\n\n\t\taggregate_node(replacement);", "\t\th(node)->predecessor = nullptr;\n\n\t\taggregate_node(replacement);"]],
  "a removed element keeps a stale successor link in its hook")
m("C06-benign-recolour-order", "benign", ["C06", "C07"], "rbtree.hpp",
  [["\t\tif(get_left(grand) == parent && isRed(get_right(grand))) {\n\t\t\th(grand)->color = color_type::red;\n\t\t\th(parent)->color = color_type::black;",
    "\t\tif(get_left(grand) == parent && isRed(get_right(grand))) {\n\t\t\th(parent)->color = color_type::black;\n\t\t\th(grand)->color = color_type::red;"]],
  "two independent assignments swapped")
m("C07-aggregate-ignores-right", "breaking", ["C07"], "interval_tree.hpp",
  [["\t\t\tif (right && new_max < h(right)->subtree_max)\n\t\t\t\tnew_max = h(right)->subtree_max;\n", ""]],
  "subtree_max ignores the right child")
m("C07-prune-strict", "breaking", ["C07"], "interval_tree.hpp",
  [["if(left && lb <= h(left)->subtree_max) {", "if(left && lb < h(left)->subtree_max) {"]],
  "search prunes a left subtree whose maximum equals the query's lower bound")

# ---- pairing heap --------------------------------------------------------------------------------------------------
m("C08-remove-forgets-sibling-backlink", "breaking", ["C08"], "pairing_heap.hpp",
  [["\t\t\tif(sibling)\n\t\t\t\th(sibling).backlink = predecessor;\n", ""]],
  "remove(x) leaves the next sibling's backlink pointing at x")
m("C08-hook-child-not-reset", "breaking", ["C08"], "pairing_heap.hpp",
  [["\t\t\th(element).sibling = nullptr;\n\t\t\th(element).child = nullptr;\n", "\t\t\th(element).sibling = nullptr;\n"]],
  "a removed element keeps its child link")
m("C08-benign-merge-order", "benign", ["C08"], "pairing_heap.hpp",
  [["_root = _merge(_root, _collapse(child));", "_root = _merge(_collapse(child), _root);"]],
  "argument order of a merge swapped: another (equally valid) shape and tie-break")

# ---- radix tree ----------------------------------------------------------------------------------------------------
m("C09-erase-wrong-bit", "breaking", ["C09"], "rcu_radixtree.hpp",
  [["cn->mask.store(mask & ~(uint16_t(1) << idx), std::memory_order_release);", "cn->mask.store(mask & ~(uint16_t(1) << ((idx + 1) & 15)), std::memory_order_release);"]],
  "erase clears the neighbouring slot")
m("C09-present-reported-inserted", "breaking", ["C09"], "rcu_radixtree.hpp",
  [["return {std::launder(reinterpret_cast<T *>(cs->entries[idx].buffer)), false};", "return {std::launder(reinterpret_cast<T *>(cs->entries[idx].buffer)), true};"]],
  "find_or_insert reports `inserted` for a key that was present")
m("C10-mask-publication-relaxed", "breaking", ["C10"], "rcu_radixtree.hpp",
  [["cs->mask.store(mask | (uint16_t(1) << idx), std::memory_order_release);", "cs->mask.store(mask | (uint16_t(1) << idx), std::memory_order_relaxed);"]],
  "the store that publishes a new entry in an existing leaf is relaxed")
m("C10-value-after-mask", "breaking", ["C10"], "rcu_radixtree.hpp",
  [["\t\t\t\tauto entry = new (cs->entries[idx].buffer) T{std::forward<Args>(args)...};\n\n\t\t\t\tcs->mask.store(mask | (uint16_t(1) << idx), std::memory_order_release);\n",
    "\t\t\t\tcs->mask.store(mask | (uint16_t(1) << idx), std::memory_order_release);\n\t\t\t\tauto entry = new (cs->entries[idx].buffer) T{std::forward<Args>(args)...};\n"]],
  "the value is constructed after the mask bit is published")
m("C10-benign-stronger-load", "benign", ["C10", "C09"], "rcu_radixtree.hpp",
  [["\tT *find(uint64_t k) {\n\t\tauto n = _root.load(std::memory_order_acquire);", "\tT *find(uint64_t k) {\n\t\tauto n = _root.load(std::memory_order_seq_cst);"]],
  "a load strengthened to seq_cst")

# ---- qs ------------------------------------------------------------------------------------------------------------
m("C11-target-one-period", "breaking", ["C11"], "qs.hpp",
  [["\tvoid await_barrier(qs_node *node) {\n\t\t// Advance the desired QS counter.\n\t\tauto target = _dom->_qs_counter.load(std::memory_order_relaxed) + 2;",
    "\tvoid await_barrier(qs_node *node) {\n\t\t// Advance the desired QS counter.\n\t\tauto target = _dom->_qs_counter.load(std::memory_order_relaxed) + 1;"]],
  "await_barrier waits for the end of the current period only")
m("C11-run-ignores-target", "breaking", ["C11"], "qs.hpp",
  [["\t\t\tif(ctr < node->_target_qs_counter)\n\t\t\t\tbreak;\n", ""]],
  "run() invokes every pending callback at once")
m("C11-last-acker-never", "breaking", ["C11"], "qs.hpp",
  [["if(_dom->_agents_to_ack.fetch_sub(1, std::memory_order_acq_rel) == 1) {\n\t\t\t\t\tauto desired", "if(_dom->_agents_to_ack.fetch_sub(1, std::memory_order_acq_rel) == 0) {\n\t\t\t\t\tauto desired"]],
  "the last acknowledging agent is not recognised: periods never end")
m("C11-run-load-relaxed", "breaking", ["C11"], "qs.hpp",
  [["\tvoid run() {\n\t\tauto ctr = _dom->_qs_counter.load(std::memory_order_acquire);", "\tvoid run() {\n\t\tauto ctr = _dom->_qs_counter.load(std::memory_order_relaxed);"]],
  "run() reads the period counter relaxed: no happens-before to the callback")
m("C11-benign-stronger-load", "benign", ["C11"], "qs.hpp",
  [["\t\t\t// Check if the QS counter incremented concurrently.\n\t\t\tauto ctr = _dom->_qs_counter.load(std::memory_order_acquire);", "\t\t\t// Check if the QS counter incremented concurrently.\n\t\t\tauto ctr = _dom->_qs_counter.load(std::memory_order_seq_cst);"]],
  "a load strengthened to seq_cst")

# ---- locks ---------------------------------------------------------------------------------------------------------
m("C12-ticket-spin-relaxed", "breaking", ["C12"], "spinlock.hpp",
  [["while(__atomic_load_n(&serving_ticket_, __ATOMIC_ACQUIRE) != ticket) {", "while(__atomic_load_n(&serving_ticket_, __ATOMIC_RELAXED) != ticket) {"]],
  "ticket lock acquires nothing")
m("C12-simple-unlock-relaxed", "breaking", ["C12"], "spinlock.hpp",
  [["__atomic_store_n(&lock_, false, __ATOMIC_RELEASE);", "__atomic_store_n(&lock_, false, __ATOMIC_RELAXED);"]],
  "simple_spinlock::unlock releases nothing")
m("C12-ticket-unlock-skips", "breaking", ["C12"], "spinlock.hpp",
  [["__atomic_store_n(&serving_ticket_, current + 1, __ATOMIC_RELEASE);", "__atomic_store_n(&serving_ticket_, current + 2, __ATOMIC_RELEASE);"]],
  "unlock serves the ticket after next: waiter starves / two holders")
m("C12-swap-forgets-flag", "breaking", ["C12"], "mutex.hpp",
  [["\tfriend void swap(unique_lock &u, unique_lock &v) {\n\t\tusing std::swap;\n\t\tswap(u._mutex, v._mutex);\n\t\tswap(u._is_locked, v._is_locked);\n", "\tfriend void swap(unique_lock &u, unique_lock &v) {\n\t\tusing std::swap;\n\t\tswap(u._mutex, v._mutex);\n"]],
  "moving a unique_lock moves the mutex pointer but not the ownership flag")
m("C12-shared-unlock-exclusive", "breaking", ["C12"], "mutex.hpp",
  [["_mutex->unlock_shared();", "_mutex->unlock();"]],
  "shared_lock releases with the exclusive call")
m("C12-benign-stronger-rmw", "benign", ["C12"], "spinlock.hpp",
  [["__atomic_fetch_add(&next_ticket_, 1, __ATOMIC_RELAXED);", "__atomic_fetch_add(&next_ticket_, 1, __ATOMIC_ACQ_REL);"]],
  "ticket draw strengthened")

# ---- sequence containers / hash_map / strings -----------------------------------------------------------------------
m("C13-is-small-strict", "breaking", ["C13"], "small_vector.hpp",
  [["return _capacity <= N;", "return _capacity < N;"]],
  "small_vector treats its initial inline capacity as heap storage")
m("C13-ilist-erase-forgets-back", "breaking", ["C13"], "list.hpp",
  [["\t\t\tFRG_ASSERT(_back == it._current);\n\t\t\t_back = previous;\n", "\t\t\tFRG_ASSERT(_back == it._current);\n"]],
  "intrusive_list::erase of the last element leaves _back dangling")
m("C13-benign-growth-factor", "benign", ["C13", "C16"], "vector.hpp",
  [["size_t new_capacity = capacity * 2;", "size_t new_capacity = capacity * 3;"]],
  "vector grows by a different factor")
m("C14-rehash-old-capacity", "breaking", ["C14"], "hash_map.hpp",
  [["auto bucket = ((unsigned int)_hasher(item->entry.template get<0>())) % new_capacity;", "auto bucket = ((unsigned int)_hasher(item->entry.template get<0>())) % _capacity;"]],
  "rehash files the entries by the old capacity")
m("C14-remove-keeps-size", "breaking", ["C14"], "hash_map.hpp",
  [["\t\t\tfrg::destruct(_allocator, item);\n\t\t\t_size--;\n", "\t\t\tfrg::destruct(_allocator, item);\n"]],
  "remove does not decrement the size")
m("C14-benign-initial-capacity", "benign", ["C14", "C16"], "hash_map.hpp",
  [["\tif(new_capacity < 10)\n\t\tnew_capacity = 10;", "\tif(new_capacity < 16)\n\t\tnew_capacity = 16;"]],
  "another minimum capacity")
m("C15-find-last-misses-first", "breaking", ["C15"], "string.hpp",
  [["for(size_t i = _length; i > 0; i--)", "for(size_t i = _length; i > 1; i--)"]],
  "find_last never looks at index 0")
m("C15-find-first-of-ignores-start", "breaking", ["C15"], "string.hpp",
  [["for(size_t i = start_from; i < _length; ++i) {", "for(size_t i = 0; i < _length; ++i) {"]],
  "find_first_of ignores its start offset (starts_with treating equal lengths as a mismatch is caught by the repository's own tests)")
m("C15-append-drops-terminator", "breaking", ["C15"], "string.hpp",
  [["\t\tmemcpy(new_buffer + _length, other.data(), sizeof(Char) * other.size());\n\t\tnew_buffer[new_length] = 0;\n\n\t\tif(_buffer)", "\t\tmemcpy(new_buffer + _length, other.data(), sizeof(Char) * other.size());\n\n\t\tif(_buffer)"]],
  "operator+=(view) leaves the buffer unterminated")

# ---- lifetimes / holders ---------------------------------------------------------------------------------------------
m("C16-clear-skips-destructors", "breaking", ["C16"], "vector.hpp",
  [["\tvoid clear() {\n\t\tfor(size_t i = 0; i < _size; i++)\n\t\t\t_elements[i].~T();\n\t\t_size = 0;", "\tvoid clear() {\n\t\t_size = 0;"]],
  "vector::clear forgets the elements without destroying them")
m("C16-hash-remove-leaks-node", "breaking", ["C16"], "hash_map.hpp",
  [["\t\t\tfrg::destruct(_allocator, item);\n\t\t\t_size--;\n", "\t\t\t_size--;\n"]],
  "hash_map::remove unlinks the chain node and never frees it")
m("C16-rehash-dealloc-wrong-size", "breaking", ["C16"], "hash_map.hpp",
  [["_allocator.deallocate(_table, sizeof(chain *) * _capacity);\n\t_table = new_table;", "_allocator.deallocate(_table, sizeof(chain *) * new_capacity);\n\t_table = new_table;"]],
  "the old table is given back with the size of the new one")
m("C16-variant-assign-skips-destroy", "breaking", ["C16"], "variant.hpp",
  [["\t\t} else {\n\t\t\tif(*this)\n\t\t\t\tdestruct_<0>();\n\t\t\tif(other)", "\t\t} else {\n\t\t\tif(other)"]],
  "assignment across alternatives constructs over the live old alternative")
m("C17-optional-copy-assign-forgets-flag", "breaking", ["C17"], "optional.hpp",
  [["\t\t\t\tnew (_stor.buffer) T(*other._object());\n\t\t\t\t_non_null = true;\n", "\t\t\t\tnew (_stor.buffer) T(*other._object());\n"]],
  "copy-assigning a value into an empty optional leaves it disengaged (the move-assignment twin is caught by the repository's tests through printf's precision option)")
m("C17-variant-emplace-keeps-tag", "breaking", ["C17"], "variant.hpp",
  [["\t\tnew (access_()) X(std::forward<Args>(args)...);\n\t\ttag_ = Index;", "\t\tnew (access_()) X(std::forward<Args>(args)...);"]],
  "emplace constructs the new alternative but keeps the old tag")

# ---- bitset / sort ----------------------------------------------------------------------------------------------------
m("C18-shift-right-wrong-offset", "breaking", ["C18"], "bitset.hpp",
  [["buffer[s] = buffer[buffer_size - 1] >> offset;", "buffer[s] = buffer[buffer_size - 1] >> off;"]],
  "operator>>= shifts the top word by the complementary offset (count() ignoring the last word is caught by the repository's own bitset::count test, so it is not a valid mutant)")
m("C18-sort-misses-last", "breaking", ["C18"], "algorithm.hpp",
  [["\t\tfor (; j < end; ++j) {", "\t\tfor (; j + 1 < end; ++j) {"]],
  "insertion_sort never compares against the last element")
m("C18-benign-sort-self-compare", "benign", ["C18"], "algorithm.hpp",
  [["\t\tauto j = i;\n\t\t++j;\n", "\t\tauto j = i;\n"]],
  "inner loop also compares an element with itself (no effect)")

# ---- printf / parsers ---------------------------------------------------------------------------------------------------
m("C19-left-pad-one-short-with-sign", "breaking", ["C19"], "formatting.hpp",
  [["for(long long i = final_width; i < width; i++)\n\t\t\t\tsink.append(' ');", "for(long long i = final_width + (sign && precision > k ? 1 : 0); i < width; i++)\n\t\t\t\tsink.append(' ');"]],
  "left-justified signed integers with a precision larger than the digit count are padded one blank short (plain left-justified padding is sampled by the repository's printf test)")
m("C19-logger-no-reset-after-flush", "breaking", ["C19"], "logging.hpp",
  [["\t\t\t\tif(_off + 1 == Limit) {\n\t\t\t\t\t_buffer[_off] = 0;\n\t\t\t\t\t_logger->_emit(_buffer);\n\t\t\t\t\t_off = 0;\n", "\t\t\t\tif(_off + 1 == Limit) {\n\t\t\t\t\t_buffer[_off] = 0;\n\t\t\t\t\t_logger->_emit(_buffer);\n"]],
  "the chunking logger does not rewind after emitting a full chunk")
m("C20-assert-after-dot-removed", "breaking", ["C20"], "printf.hpp",
  [["\t\tif(*s == '.') {\n\t\t\t++s;\n\t\t\tFRG_ASSERT(*s);\n", "\t\tif(*s == '.') {\n\t\t\t++s;\n"]],
  "a format ending in `%.` is no longer stopped by the assertion hook")
m("C20-fmt-lookahead-unguarded", "breaking", ["C20"], "formatting.hpp",
  [["auto next = (i + 1) < self.fmt.size() ? self.fmt[i + 1] : 0;", "auto next = self.fmt[i + 1];"]],
  "fmt looks one character past the end of the format view")


# ---- further benign changes (must stay quiet) ------------------------------------------------------------------------------
m("slab-benign-shrink-keeps-tail-unpoisoned", "benign", ["C03", "C02"], "slab.hpp",
  [["\t\t\t_plcy.unpoison_expand(p, item_size);\n\t\t\t_plcy.poison(p, item_size);\n\t\t\t_plcy.unpoison(p, new_size);\n\t\t}\n\t\treturn true;", "\t\t\t_plcy.unpoison_expand(p, item_size);\n\t\t}\n\t\treturn true;"]],
  "an in-place realloc leaves the whole class block unpoisoned: the property only demands that the requested bytes are unpoisoned")
m("C11-benign-stronger-cas", "benign", ["C11"], "qs.hpp",
  [["\tvoid await_barrier(qs_node *node) {\n\t\t// Advance the desired QS counter.\n\t\tauto target = _dom->_qs_counter.load(std::memory_order_relaxed) + 2;\n\t\tauto c = _dom->_desired_qs_counter.load(std::memory_order_relaxed);\n\t\twhile(c < target) {\n\t\t\tif(_dom->_desired_qs_counter.compare_exchange_weak(c, target,\n\t\t\t\t\tstd::memory_order_relaxed, std::memory_order_relaxed))",
    "\tvoid await_barrier(qs_node *node) {\n\t\t// Advance the desired QS counter.\n\t\tauto target = _dom->_qs_counter.load(std::memory_order_relaxed) + 2;\n\t\tauto c = _dom->_desired_qs_counter.load(std::memory_order_relaxed);\n\t\twhile(c < target) {\n\t\t\tif(_dom->_desired_qs_counter.compare_exchange_weak(c, target,\n\t\t\t\t\tstd::memory_order_acq_rel, std::memory_order_acquire))"]],
  "the CAS that raises the desired period uses stronger orders")
m("C11-await-cas-loop-leaves-on-failure", "breaking", ["C11"], "qs.hpp",
  [["\tvoid await_barrier(qs_node *node) {\n\t\t// Advance the desired QS counter.\n\t\tauto target = _dom->_qs_counter.load(std::memory_order_relaxed) + 2;\n\t\tauto c = _dom->_desired_qs_counter.load(std::memory_order_relaxed);\n\t\twhile(c < target) {\n\t\t\tif(_dom->_desired_qs_counter.compare_exchange_weak(c, target,",
    "\tvoid await_barrier(qs_node *node) {\n\t\t// Advance the desired QS counter.\n\t\tauto target = _dom->_qs_counter.load(std::memory_order_relaxed) + 2;\n\t\tauto c = _dom->_desired_qs_counter.load(std::memory_order_relaxed);\n\t\twhile(c < target) {\n\t\t\tif(!_dom->_desired_qs_counter.compare_exchange_weak(c, target,"]],
  "await_barrier leaves its CAS loop on failure instead of success (campaign survivor qs.hpp:209): a registration is lost only when another agent raises the desired period between the load and the CAS but not far enough - driven by the rare-branch witness stage")
m("C14-benign-growth-factor", "benign", ["C14", "C16"], "hash_map.hpp",
  [["size_t new_capacity = 2 * _size;", "size_t new_capacity = 4 * _size;"]],
  "the table grows by another factor")
m("C15-benign-spare-capacity", "benign", ["C15", "C16"], "string.hpp",
  [["\tbasic_string(const basic_string &other)\n\t: _allocator{other._allocator}, _length{other._length} {\n\t\t_buffer = (Char *)_allocator.allocate(sizeof(Char) * _length + 1);",
    "\tbasic_string(const basic_string &other)\n\t: _allocator{other._allocator}, _length{other._length} {\n\t\t_buffer = (Char *)_allocator.allocate(sizeof(Char) * _length + 9);"]],
  "the copy constructor allocates some spare room")
m("C12-benign-inner-spin-acquire", "benign", ["C12"], "spinlock.hpp",
  [["while (__atomic_load_n(&lock_, __ATOMIC_RELAXED)) {", "while (__atomic_load_n(&lock_, __ATOMIC_ACQUIRE)) {"]],
  "the read-only spin of simple_spinlock uses acquire")
m("C13-benign-small-vector-growth", "benign", ["C13", "C16"], "small_vector.hpp",
  [["size_t new_capacity = capacity * 2;", "size_t new_capacity = capacity + 5;"]],
  "small_vector grows additively")

with open(os.path.join(os.path.dirname(os.path.abspath(__file__)), "mutants.jsonl"), "w") as f:
    for x in M:
        f.write(json.dumps(x) + "\n")
print(len(M), "mutants")
